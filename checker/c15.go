package main

import (
	"fmt"
	"go/ast"
	"go/token"
	"go/types"
)

func init() {
	register(&PropCheck{ID: "C15", Pkgs: []string{"./netio"}, Run: runC15})
}

// chanOp describes a channel operation statement on a PipeConn field or a deadline wait().
type chanOp struct {
	V     int
	Send  bool
	Field string   // PipeConn field name, or "readDeadline.wait" / "writeDeadline.wait"
	Value ast.Expr // sent value (send) or nil
	Recv  ast.Expr // variable receiving (recv) or nil
}

// pipeChanOps lists channel operations in fc on fields of the PipeConn receiver.
func pipeChanOps(fc *FuncCtx) []chanOp {
	info := fc.Info()
	fieldOf := func(e ast.Expr) string {
		e = ast.Unparen(e)
		if sel, ok := e.(*ast.SelectorExpr); ok {
			if s, isSel := info.Selections[sel]; isSel && s.Kind() == types.FieldVal && namedTypeName(s.Recv()) == "PipeConn" {
				return sel.Sel.Name
			}
		}
		if c, ok := e.(*ast.CallExpr); ok { // p.readDeadline.wait()
			if sel, ok := ast.Unparen(c.Fun).(*ast.SelectorExpr); ok && sel.Sel.Name == "wait" {
				if fs, ok := ast.Unparen(sel.X).(*ast.SelectorExpr); ok {
					if s, isSel := info.Selections[fs]; isSel && s.Kind() == types.FieldVal && namedTypeName(s.Recv()) == "PipeConn" {
						return fs.Sel.Name + ".wait"
					}
				}
			}
		}
		return ""
	}
	var out []chanOp
	for _, v := range fc.G.V {
		if v.Kind != VStmt && v.Kind != VCond && v.Kind != VSwitchCase {
			continue
		}
		switch s := v.Node.(type) {
		case *ast.SendStmt:
			if f := fieldOf(s.Chan); f != "" {
				out = append(out, chanOp{V: v.ID, Send: true, Field: f, Value: s.Value})
			}
			continue
		case *ast.AssignStmt:
			if len(s.Rhs) == 1 {
				if u, ok := ast.Unparen(s.Rhs[0]).(*ast.UnaryExpr); ok && u.Op == token.ARROW {
					if f := fieldOf(u.X); f != "" {
						out = append(out, chanOp{V: v.ID, Field: f, Recv: s.Lhs[0]})
						continue
					}
				}
			}
		}
		// receive expressions anywhere else in the statement (return <-ch, f(<-ch), if <-ch ...)
		inspectNoLit(v.Node, func(n ast.Node) bool {
			if u, ok := n.(*ast.UnaryExpr); ok && u.Op == token.ARROW {
				if f := fieldOf(u.X); f != "" {
					out = append(out, chanOp{V: v.ID, Field: f})
				}
			}
			return true
		})
	}
	return out
}

// selectOf returns the VSelect vertex whose clause's comm statement is at vertex v, or nil.
func selectOf(fc *FuncCtx, v int) *Vertex {
	n := fc.G.V[v].Node
	for _, sv := range fc.G.V {
		if sv.Kind != VSelect {
			continue
		}
		for _, cl := range sv.Stmt.(*ast.SelectStmt).Body.List {
			if cc := cl.(*ast.CommClause); cc.Comm != nil && cc.Comm == n {
				return sv
			}
		}
	}
	return nil
}

func runC15(p *Prog, r *Report) {
	r.Explanation = "Structural necessary conditions of 'the in-memory pipe is a faithful duplex stream with half-close and deadlines', decided on netio/pipe.go: every data rendezvous is completed by exactly one count-back on all paths; every blocking data operation sits in a select with its direction's done channel and deadline; the byte counts reported are the counts exchanged; the close error is published before the done channel closes and the two ends are cross-wired consistently; a whole Write holds the write mutex; SetDeadline/Close* reach both directions; the deadline object's state is touched under its mutex."
	r.NotDecided = []string{"exactly-once, in-order delivery as a property of histories (linearizability)", "absence of deadlock beyond pairing and interruptibility", "timer behaviour at run time"}
	r.Assumptions = []string{"Go channel, select, sync.Mutex, sync.OnceFunc and time.AfterFunc semantics", "unbuffered channels as created in NewPipe (checked: make without capacity)"}
	c15R1(p, r)
	c15R2(p, r)
	c15R3(p, r)
	c15R4(p, r)
	c15R5(p, r)
	c15R6(p, r)
	const r7 = "C15-R7"
	r.Rule(r7, "lock balance in package netio: the deadline mutex and the write-serialising mutex of the pipe are locked only when not held by the function, and released at every exit (here: by the deferred Unlock that follows each Lock)")
	nb := lockBalance(p, r, r7, "netio", nil)
	r.Count("lock_operations_checked", nb)
	r.Floor(r7, 3)
}

func c15R1(p *Prog, r *Report) {
	const rule = "C15-R1"
	r.Rule(rule, "rendezvous pairing and count fidelity: after every receive from rdRx exactly one send on rdTx follows on all paths before the function returns or waits again; after every send on wrTx exactly one receive from wrRx follows; the count sent back is the number of bytes the reader took (copy / Write result) and is what Read returns; Write advances its buffer and its result by exactly the count received")
	type spec struct {
		fn          string
		first, back string
		backSend    bool
	}
	var specs []spec
	var fcs []*FuncCtx
	p.AllFuncs(p.Pkg("netio"), func(f *FuncCtx) {
		rd, wr := false, false
		for _, o := range pipeChanOps(f) {
			if o.Field == "rdRx" {
				rd = true
			}
			if o.Field == "wrTx" {
				wr = true
			}
		}
		if rd && f.Obj != nil {
			specs = append(specs, spec{f.Obj.Name(), "rdRx", "rdTx", true})
			fcs = append(fcs, f)
		}
		if wr && f.Obj != nil {
			specs = append(specs, spec{f.Obj.Name(), "wrTx", "wrRx", false})
			fcs = append(fcs, f)
		}
	})
	for si, s := range specs {
		fc := fcs[si]
		info := fc.Info()
		ops := pipeChanOps(fc)
		var firsts, backs []chanOp
		for _, o := range ops {
			if o.Field == s.first {
				firsts = append(firsts, o)
			}
			if o.Field == s.back {
				backs = append(backs, o)
			}
		}
		prefix := "netio.(*PipeConn)." + s.fn
		if len(firsts) == 0 {
			r.Fail(rule, prefix+":data-op", p.posStr(fc.Body.Pos()), "no "+s.first+" operation found")
			continue
		}
		isBack := map[int]bool{}
		for _, b := range backs {
			isBack[b.V] = true
		}
		isFirst := map[int]bool{}
		for _, f := range firsts {
			isFirst[f.V] = true
		}
		for i, f := range firsts {
			// (a) at least one: exit and any further data op unreachable without a count-back
			reach := fc.G.ReachAfter(f.V, func(v *Vertex) bool { return isBack[v.ID] }, nil)
			miss := reach[fc.G.Exit]
			for fv := range isFirst {
				if reach[fv] {
					miss = true
				}
			}
			// waiting again = reaching a select head
			for _, v := range fc.G.V {
				if v.Kind == VSelect && reach[v.ID] {
					miss = true
				}
			}
			r.Check(!miss, rule, fmt.Sprintf("%s:%s#%d-completed", prefix, s.first, i), p.posStr(fc.G.V[f.V].Node.Pos()),
				"every path from the data hand-off passes the count-back on "+s.back+" before returning or waiting again",
				"a path leaves the hand-off on "+s.first+" without the count-back on "+s.back+": the peer stays blocked forever")
			// (b) at most one: from a count-back, another count-back is unreachable without a new data op
			for _, b := range backs {
				again := fc.G.ReachAfter(b.V, func(v *Vertex) bool { return isFirst[v.ID] }, nil)
				dup := false
				for bv := range isBack {
					if again[bv] {
						dup = true
					}
				}
				r.Check(!dup, rule, fmt.Sprintf("%s:%s-once-per-hand-off", prefix, s.back), p.posStr(fc.G.V[b.V].Node.Pos()), "one count-back per hand-off", "two count-backs can follow one hand-off: the second blocks forever or is taken for the next write's count")
			}
		}
		// count fidelity
		kind := "write"
		if s.backSend {
			kind = "writeTo"
			for _, b := range backs {
				if vo := objOf(info, b.Value); vo != nil {
					if rhs, _, _, ok := fc.SoleDefRHS(vo); ok {
						if c, ok := ast.Unparen(rhs).(*ast.CallExpr); ok {
							if id, ok := ast.Unparen(c.Fun).(*ast.Ident); ok && id.Name == "copy" {
								kind = "read"
							}
						}
					}
				}
			}
		}
		switch kind {
		case "read":
			for _, b := range backs {
				// value sent = result of copy(b, bw) ; returned n is the same variable
				vo := objOf(info, b.Value)
				good := false
				if vo != nil {
					if rhs, _, _, ok := fc.SoleDefRHS(vo); ok {
						if c, ok := ast.Unparen(rhs).(*ast.CallExpr); ok {
							if id, ok := ast.Unparen(c.Fun).(*ast.Ident); ok && id.Name == "copy" && len(c.Args) == 2 && objOf(info, c.Args[0]) == fc.ParamObj(0) {
								for _, f := range firsts {
									if f.Recv != nil && objOf(info, c.Args[1]) == objOf(info, f.Recv) {
										good = true
									}
								}
							}
						}
					}
				}
				r.Check(good, rule, prefix+":count-is-copy-result", p.posStr(fc.G.V[b.V].Node.Pos()), "the count sent back is copy(caller buffer, writer's slice)", "the count sent back is not the number of bytes copied into the caller's buffer")
				// the return after the count-back returns that variable and nil
				after := fc.G.ReachAfter(b.V, nil, nil)
				for _, ret := range fc.Returns() {
					if !after[ret] {
						continue
					}
					rs := fc.G.V[ret].Node.(*ast.ReturnStmt)
					okRet := len(rs.Results) == 2 && objOf(info, rs.Results[0]) == vo && isNilExpr(info, rs.Results[1])
					r.Check(okRet, rule, prefix+":returns-count", p.posStr(rs.Pos()), "Read returns the same count and a nil error", "Read returns something other than the count it acknowledged to the writer")
				}
			}
		case "writeTo":
			for _, b := range backs {
				vo := objOf(info, b.Value)
				good := false
				if vo != nil {
					for _, cs := range fc.AllCalls() {
						if cs.Fn != nil && cs.Fn.Name() == "Write" && cs.ResultVar(0) == vo && fc.SoleDef(b.V, vo, cs.V) {
							for _, f := range firsts {
								if f.Recv != nil && len(cs.Call.Args) == 1 && objOf(info, cs.Call.Args[0]) == objOf(info, f.Recv) {
									good = true
								}
							}
						}
					}
				}
				r.Check(good, rule, prefix+":count-is-write-result", p.posStr(fc.G.V[b.V].Node.Pos()), "the count sent back is the result of w.Write(writer's slice)", "the count sent back is not what the destination writer consumed")
			}
		case "write":
			for _, b := range backs {
				nw := objOf(info, b.Recv)
				if nw == nil {
					r.Fail(rule, prefix+":count-received", p.posStr(fc.G.V[b.V].Node.Pos()), "the count received from the reader is discarded")
					continue
				}
				// b = b[nw:] and n += nw, nothing else modifies b / n
				bObj, nObj := fc.ParamObj(0), fc.ResultObj(0)
				okB, okN := false, false
				for _, d := range fc.Defs(bObj) {
					as, ok := fc.G.V[d].Node.(*ast.AssignStmt)
					good := false
					if ok && len(as.Rhs) == 1 {
						if sl, ok := ast.Unparen(as.Rhs[0]).(*ast.SliceExpr); ok && objOf(info, sl.X) == bObj && sl.High == nil && sl.Low != nil && objOf(info, sl.Low) == nw {
							good = true
							okB = true
						}
					}
					if !good {
						r.Fail(rule, prefix+":buffer-advance:"+exprStr(fc.G.V[d].Node), p.posStr(fc.G.V[d].Node.Pos()), "the write buffer is modified other than by b = b[count received:]")
					}
				}
				for _, d := range fc.Defs(nObj) {
					as, ok := fc.G.V[d].Node.(*ast.AssignStmt)
					good := ok && as.Tok == token.ADD_ASSIGN && len(as.Rhs) == 1 && objOf(info, as.Rhs[0]) == nw
					if good {
						okN = true
					} else {
						r.Fail(rule, prefix+":result-advance:"+exprStr(fc.G.V[d].Node), p.posStr(fc.G.V[d].Node.Pos()), "Write's result is modified other than by n += count received")
					}
				}
				r.Check(okB && okN, rule, prefix+":advances-by-received-count", p.posStr(fc.G.V[b.V].Node.Pos()), "buffer and result advance by the count the reader reported", "Write does not advance its buffer and result by the count the reader reported (bytes would be lost, repeated or misreported)")
				// the value sent is the (remaining) buffer itself
				for _, f := range firsts {
					r.Check(objOf(info, f.Value) == bObj, rule, prefix+":sends-remaining-buffer", p.posStr(fc.G.V[f.V].Node.Pos()), "the slice handed to the reader is the remaining buffer", "the slice handed to the reader is not the remaining buffer")
				}
			}
			// loop continues while len(b) > 0
		}
	}
	r.Floor(rule, 11)
}

func c15R2(p *Prog, r *Report) {
	const rule = "C15-R2"
	r.Rule(rule, "every blocking data operation can be interrupted: each send on wrTx / receive from rdRx is a case of a select whose other cases are the direction's done channel and the direction's deadline wait(), the done case returns the direction's close error and the deadline case os.ErrDeadlineExceeded; the same two conditions are pre-checked before blocking")
	type spec struct {
		fn, data, done, dl string
	}
	var specs []spec
	var fcs []*FuncCtx
	p.AllFuncs(p.Pkg("netio"), func(f *FuncCtx) {
		rd, wr := false, false
		for _, o := range pipeChanOps(f) {
			if o.Field == "rdRx" {
				rd = true
			}
			if o.Field == "wrTx" {
				wr = true
			}
		}
		if rd && f.Obj != nil {
			specs = append(specs, spec{f.Obj.Name(), "rdRx", "localDone", "readDeadline.wait"})
			fcs = append(fcs, f)
		}
		if wr && f.Obj != nil {
			specs = append(specs, spec{f.Obj.Name(), "wrTx", "remoteDone", "writeDeadline.wait"})
			fcs = append(fcs, f)
		}
	})
	for si, s := range specs {
		fc := fcs[si]
		info := fc.Info()
		prefix := "netio.(*PipeConn)." + s.fn
		ops := pipeChanOps(fc)
		nData := 0
		for _, o := range ops {
			if o.Field != s.data {
				continue
			}
			nData++
			sv := selectOf(fc, o.V)
			if sv == nil {
				r.Fail(rule, prefix+":"+s.data+"-in-select", p.posStr(fc.G.V[o.V].Node.Pos()), "the data operation on "+s.data+" is not a select case: it cannot be interrupted by close or deadline")
				continue
			}
			have := map[string]int{}
			hasDefault := false
			for _, cl := range sv.Stmt.(*ast.SelectStmt).Body.List {
				cc := cl.(*ast.CommClause)
				if cc.Comm == nil {
					hasDefault = true
					continue
				}
				for _, o2 := range ops {
					if fc.G.V[o2.V].Node == cc.Comm {
						have[o2.Field] = o2.V
					}
				}
			}
			r.Check(!hasDefault, rule, prefix+":select-blocks", p.posStr(sv.Stmt.Pos()), "no default case", "the data select has a default case: the operation spins or gives up instead of waiting")
			_, okDone := have[s.done]
			_, okDl := have[s.dl]
			r.Check(okDone, rule, prefix+":select-has-"+s.done, p.posStr(sv.Stmt.Pos()), "done channel is a case", "the select lacks the "+s.done+" case: a pending call is not woken when the direction is closed")
			r.Check(okDl, rule, prefix+":select-has-"+s.dl, p.posStr(sv.Stmt.Pos()), "deadline is a case", "the select lacks the "+s.dl+"() case: a deadline does not unblock a pending call")
			// returned errors
			if okDl {
				retOK := true
				reach := fc.G.ReachAfter(have[s.dl], func(v *Vertex) bool { _, isRet := v.Node.(*ast.ReturnStmt); return isRet && false }, nil)
				n := 0
				for _, ret := range fc.Returns() {
					if !reach[ret] {
						continue
					}
					// first return reached from the case body: must be directly after
					if !fc.G.Dominates([]int{have[s.dl]}, ret) {
						continue
					}
					n++
					rs := fc.G.V[ret].Node.(*ast.ReturnStmt)
					last := rs.Results[len(rs.Results)-1]
					sel, ok := ast.Unparen(last).(*ast.SelectorExpr)
					if !ok || sel.Sel.Name != "ErrDeadlineExceeded" {
						retOK = false
					}
				}
				r.Check(retOK && n > 0, rule, prefix+":deadline-case-returns-timeout", p.posStr(fc.G.V[have[s.dl]].Node.Pos()), "returns os.ErrDeadlineExceeded", "the deadline case does not return os.ErrDeadlineExceeded")
			}
			if okDone {
				n := 0
				good := true
				for _, ret := range fc.Returns() {
					if !fc.G.Dominates([]int{have[s.done]}, ret) {
						continue
					}
					n++
					rs := fc.G.V[ret].Node.(*ast.ReturnStmt)
					last := ast.Unparen(rs.Results[len(rs.Results)-1])
					errField := map[string]string{"rdRx": "readError", "wrTx": "writeError"}[s.data]
					// the close error: onceError.Load of this direction's error, directly or through a
					// helper that returns it — or, with that helper written out in place, any return
					// that lies behind such a Load executed inside the done case (the Load's value or
					// its io.EOF translation)
					viaCall := false
					if c, ok := last.(*ast.CallExpr); ok {
						viaCall = returnsCloseError(p, fc, Callee(info, c), c, errField)
					}
					behindLoad := false
					for _, cs := range fc.AllCalls() {
						if cs.Fn != nil && cs.Fn.Name() == "Load" && namedTypeName(recvTypeOf(cs.Fn)) == "onceError" {
							if sel, ok := ast.Unparen(cs.Call.Fun).(*ast.SelectorExpr); ok {
								if fs, ok := ast.Unparen(sel.X).(*ast.SelectorExpr); ok && fs.Sel.Name == errField &&
									fc.G.Dominates([]int{have[s.done]}, cs.V) && fc.G.Dominates([]int{cs.V}, ret) {
									behindLoad = true
								}
							}
						}
					}
					if !viaCall && !behindLoad {
						good = false
					}
				}
				r.Check(good && n > 0, rule, prefix+":done-case-returns-close-error", p.posStr(fc.G.V[have[s.done]].Node.Pos()), "returns the direction's close error", "the done case does not return the direction's close error")
			}
		}
		r.Check(nData >= 1, rule, prefix+":has-data-op", p.posStr(fc.Body.Pos()), fmt.Sprintf("%d data operation(s)", nData), "no data operation found")
		// pre-checks: isClosedChan(p.<done>) and isClosedChan(p.<dl>()) conditions exist and dominate the first data select
		pre := map[string]bool{}
		scan := []*FuncCtx{fc}
		p.AllFuncs(p.Pkg("netio"), func(f *FuncCtx) {
			for _, cs := range f.AllCalls() {
				if cs.Fn != nil && fc.Obj != nil && cs.Fn.Origin() == fc.Obj {
					scan = append(scan, f)
				}
			}
		})
		for _, sf := range scan {
			info := sf.Info()
			for _, v := range sf.G.V {
				if v.Kind != VCond {
					continue
				}
				c, ok := ast.Unparen(v.Node.(ast.Expr)).(*ast.CallExpr)
				if !ok || len(c.Args) != 1 {
					continue
				}
				if fn := Callee(info, c); fn == nil || fn.Name() != "isClosedChan" {
					continue
				}
				arg := ast.Unparen(c.Args[0])
				if sel, ok := arg.(*ast.SelectorExpr); ok {
					pre[sel.Sel.Name] = true
				}
				if cc, ok := arg.(*ast.CallExpr); ok {
					if sel, ok := ast.Unparen(cc.Fun).(*ast.SelectorExpr); ok {
						if fs, ok := ast.Unparen(sel.X).(*ast.SelectorExpr); ok {
							pre[fs.Sel.Name+"."+sel.Sel.Name] = true
						}
					}
				}
			}
		}
		r.Check(pre[s.done] && pre[s.dl], rule, prefix+":pre-checks", p.posStr(fc.Body.Pos()), "closed direction and expired deadline are checked before blocking", fmt.Sprintf("pre-checks present: %s=%v %s=%v (without them a call on a closed / timed-out end can still win the rendezvous)", s.done, pre[s.done], s.dl, pre[s.dl]))
	}
	r.Floor(rule, 18)
}

func c15R3(p *Prog, r *Report) {
	const rule = "C15-R3"
	r.Rule(rule, "close protocol and wiring: Close{Read,Write}WithError store the error before closing the done channel (a woken peer dereferences it), a nil error is replaced first, the close functions are sync.OnceFunc values; NewPipe wires each end's read side to the other's write side (data, count, done, close function, error) with unbuffered channels; Close/CloseRead/CloseWrite/CloseWithError reach the right directions")
	for _, d := range [][3]string{{"CloseReadWithError", "readError", "closeLocalDone"}, {"CloseWriteWithError", "writeError", "closeRemoteDone"}} {
		fc := p.Func("netio", "PipeConn", d[0])
		info := fc.Info()
		var storeV, closeV = -1, -1
		for _, cs := range fc.AllCalls() {
			if sel, ok := ast.Unparen(cs.Call.Fun).(*ast.SelectorExpr); ok {
				if cs.Fn != nil && cs.Fn.Name() == "Store" {
					if fs, ok := ast.Unparen(sel.X).(*ast.SelectorExpr); ok && fs.Sel.Name == d[1] {
						storeV = cs.V
						// stored value is the err parameter
						if len(cs.Call.Args) != 1 || objOf(info, cs.Call.Args[0]) != fc.ParamObj(0) {
							storeV = -2
						}
					}
				}
				if sel.Sel.Name == d[2] {
					closeV = cs.V
				}
			}
		}
		prefix := "netio.(*PipeConn)." + d[0]
		ok := storeV >= 0 && closeV >= 0 && fc.G.Dominates([]int{storeV}, closeV) && !fc.G.ReachAfter(closeV, nil, nil)[storeV] && fc.G.Dominates([]int{closeV}, fc.G.Exit)
		r.Check(ok, rule, prefix+":store-before-close", p.posStr(fc.Body.Pos()), d[1]+".Store(err) dominates "+d[2]+"() and both run on every path",
			"the done channel can be closed before the error is stored (or one of them is skipped): a peer woken by the close loads a nil *error and panics, or sees the wrong error")
		// nil replaced
		nilFix := false
		for _, e := range fc.TestEdges(func(x ast.Expr) bool { return objOf(info, x) == fc.ParamObj(0) }, WantNil) {
			reach := fc.G.Reach([]int{e.To}, nil, nil)
			for _, dv := range fc.Defs(fc.ParamObj(0)) {
				if reach[dv] {
					nilFix = true
				}
			}
		}
		r.Check(nilFix, rule, prefix+":nil-error-replaced", p.posStr(fc.Body.Pos()), "a nil error is replaced by the direction's default", "a nil error is stored as is: Load returns nil and the peer's call reports success with no data")
	}
	// NewPipe wiring
	np := p.Func("netio", "", "NewPipe")
	info := np.Info()
	// the two ends, however they are put together (literals or new(PipeConn) plus assignments)
	lits := builtValues(np, "PipeConn")
	if len(lits) != 2 {
		r.Fail(rule, "netio.NewPipe:two-ends", p.posStr(np.Body.Pos()), fmt.Sprintf("expected two PipeConn values being built, found %d", len(lits)))
	} else {
		field := func(cl *builtValue, name string) types.Object {
			if v, ok := cl.Fields[name]; ok {
				return objOf(info, v)
			}
			return nil
		}
		a, b := lits[0], lits[1]
		pairs := [][2]string{{"rdRx", "wrTx"}, {"rdTx", "wrRx"}, {"localDone", "remoteDone"}, {"closeLocalDone", "closeRemoteDone"}, {"readError", "writeError"}}
		for _, pr := range pairs {
			x1, y1 := field(a, pr[0]), field(b, pr[1])
			x2, y2 := field(b, pr[0]), field(a, pr[1])
			ok := x1 != nil && x1 == y1 && x2 != nil && x2 == y2 && x1 != x2
			r.Check(ok, rule, "netio.NewPipe:wiring:"+pr[0]+"~"+pr[1], p.posStr(a.Pos), "a."+pr[0]+" == b."+pr[1]+" and b."+pr[0]+" == a."+pr[1]+", distinct objects per direction", "the two ends are not cross-wired on "+pr[0]+"/"+pr[1]+": data, counts, close signals or errors of one direction reach the wrong side")
		}
		// done channel ↔ its close function: closeDoneK closes doneK
		for _, cl := range lits {
			ld, cld := field(cl, "localDone"), field(cl, "closeLocalDone")
			good := false
			if cld != nil {
				if rhs, _, _, ok := np.SoleDefRHS(cld); ok {
					if c, ok := funcCall(info, rhs, "sync", "OnceFunc"); ok && len(c.Args) == 1 {
						if fl, ok := ast.Unparen(c.Args[0]).(*ast.FuncLit); ok {
							ast.Inspect(fl.Body, func(n ast.Node) bool {
								if cc, ok := n.(*ast.CallExpr); ok {
									if id, ok := ast.Unparen(cc.Fun).(*ast.Ident); ok && id.Name == "close" && len(cc.Args) == 1 && objOf(info, cc.Args[0]) == ld {
										good = true
									}
								}
								return true
							})
						}
					}
				}
			}
			r.Check(good, rule, "netio.NewPipe:close-func-closes-own-done:"+fmt.Sprint(p.posStr(cl.Pos)), p.posStr(cl.Pos), "closeLocalDone is a sync.OnceFunc closing this end's localDone", "closeLocalDone is not a once-only close of this end's localDone (double close panics; wrong channel wakes the wrong side)")
		}
		// channels unbuffered
		for _, v := range np.G.V {
			as, ok := v.Node.(*ast.AssignStmt)
			if !ok || len(as.Rhs) != 1 {
				continue
			}
			if c, ok := ast.Unparen(as.Rhs[0]).(*ast.CallExpr); ok {
				if id, ok := ast.Unparen(c.Fun).(*ast.Ident); ok && id.Name == "make" {
					if _, isChan := info.Types[c.Args[0]].Type.Underlying().(*types.Chan); isChan {
						r.Check(len(c.Args) == 1, rule, "netio.NewPipe:unbuffered:"+exprStr(as.Lhs[0]), p.posStr(as.Pos()), "unbuffered", "a buffered channel lets Write return before the reader consumed the data")
					}
				}
			}
		}
	}
	// delegation of the close family
	deleg := [][]string{{"CloseRead", "CloseReadWithError"}, {"CloseWrite", "CloseWriteWithError"}, {"CloseWithError", "CloseReadWithError", "CloseWriteWithError"}, {"Close", "CloseWithError"}}
	for _, d := range deleg {
		fc := p.Func("netio", "PipeConn", d[0])
		for _, callee := range d[1:] {
			ok := false
			for _, cs := range fc.CallsTo(isFn(mp("netio"), "PipeConn", callee)) {
				if fc.G.Dominates([]int{cs.V}, fc.G.Exit) {
					if sel, isSel := ast.Unparen(cs.Call.Fun).(*ast.SelectorExpr); isSel && objOf(fc.Info(), sel.X) == fc.RecvObj() {
						ok = true
					}
				}
			}
			r.Check(ok, rule, "netio.(*PipeConn)."+d[0]+":calls:"+callee, p.posStr(fc.Body.Pos()), "always calls "+callee+" on itself", d[0]+" does not always call "+callee)
		}
	}
	r.Floor(rule, 18)
}

func c15R4(p *Prog, r *Report) {
	const rule = "C15-R4"
	r.Rule(rule, "write atomicity: every write-side data hand-off (wrTx/wrRx) happens with PipeConn.wrMu held by the function performing it or by all of its callers, the lock is held across the whole chunk loop of one Write (a hand-off or a call leading to one that sits on a loop must be inside the critical section of the function containing the loop), Unlock is deferred, and the write-side channels are reached only from Write")
	pkg := p.Pkg("netio")
	// generalized write-side operations: direct ops and calls to functions that perform them
	performs := map[*types.Func]bool{}
	for changed := true; changed; {
		changed = false
		p.AllFuncs(pkg, func(f *FuncCtx) {
			if f.Obj == nil || performs[f.Obj] {
				return
			}
			for _, o := range pipeChanOps(f) {
				if o.Field == "wrTx" || o.Field == "wrRx" {
					performs[f.Obj] = true
					changed = true
					return
				}
			}
			for _, cs := range f.AllCalls() {
				if cs.Fn != nil && performs[cs.Fn.Origin()] {
					performs[f.Obj] = true
					changed = true
					return
				}
			}
		})
	}
	// heldAtEntry: does every call site of fn hold wrMu (recursively up)?
	var heldByCallers func(fn *types.Func, depth int) bool
	stateAt := func(f *FuncCtx, v int) LockState {
		recv := f.RecvObj()
		if recv == nil {
			return LUnlocked
		}
		st := f.LockStates(fmt.Sprintf("%p.wrMu", recv), LUnlocked)
		if sv := selectOf(f, v); sv != nil {
			return st[sv.ID]
		}
		return st[v]
	}
	heldByCallers = func(fn *types.Func, depth int) bool {
		if depth > 4 {
			return false
		}
		n, all := 0, true
		p.AllFuncs(pkg, func(f *FuncCtx) {
			for _, cs := range f.AllCalls() {
				if cs.Fn == nil || cs.Fn.Origin() != fn {
					continue
				}
				n++
				if stateAt(f, cs.V) == LWrite {
					continue
				}
				if f.Obj != nil && heldByCallers(f.Obj, depth+1) {
					continue
				}
				all = false
			}
		})
		return n > 0 && all
	}
	nOps := 0
	p.AllFuncs(pkg, func(f *FuncCtx) {
		if f.Obj == nil || !performs[f.Obj] {
			return
		}
		type gop struct {
			v    int
			desc string
		}
		var gops []gop
		for i, o := range pipeChanOps(f) {
			if o.Field == "wrTx" || o.Field == "wrRx" {
				gops = append(gops, gop{o.V, fmt.Sprintf("%s#%d", o.Field, i)})
			}
		}
		for _, cs := range f.AllCalls() {
			if cs.Fn != nil && performs[cs.Fn.Origin()] {
				gops = append(gops, gop{cs.V, "call:" + cs.Fn.Name()})
			}
		}
		entryHeld := false
		entryKnown := false
		for _, g := range gops {
			nOps++
			st := stateAt(f, g.v)
			onLoop := f.G.ReachAfter(g.v, nil, nil)[g.v]
			if sv := selectOf(f, g.v); sv != nil {
				onLoop = f.G.ReachAfter(sv.ID, nil, nil)[sv.ID]
			}
			isDirect := g.desc[:4] != "call"
			held := st == LWrite
			if !held && (isDirect || onLoop) {
				if !entryKnown {
					entryHeld, entryKnown = heldByCallers(f.Obj, 0), true
				}
				held = entryHeld
			}
			if !isDirect && !onLoop {
				// a single call to a function that takes the lock itself is fine
				r.OK(rule, fmt.Sprintf("%s:%s", f.Name, g.desc), p.posStr(f.G.V[g.v].Node.Pos()), "single delegation (callee checked on its own)")
				continue
			}
			r.Check(held, rule, fmt.Sprintf("%s:%s-under-wrMu", f.Name, g.desc), p.posStr(f.G.V[g.v].Node.Pos()),
				"performed with wrMu held for the whole chunk loop", "write-side hand-off (or a call leading to one, inside the chunk loop) with wrMu not held across it: chunks of concurrent Writes interleave")
		}
		// unlocks must be deferred
		if recv := f.RecvObj(); recv != nil {
			muKey := fmt.Sprintf("%p.wrMu", recv)
			for _, cs := range f.AllCalls() {
				op, mu := mutexOp(f.Info(), cs.Call)
				if op == opUnlock && pathKey(f.Info(), mu) == muKey {
					_, isDefer := f.G.V[cs.V].Node.(*ast.DeferStmt)
					after := f.G.ReachAfter(cs.V, nil, nil)
					again := false
					for _, g := range gops {
						if after[g.v] {
							again = true
						}
					}
					r.Check(isDefer || !again, rule, f.Name+":unlock-after-last-hand-off", cs.Pos(), "wrMu is released only when no further hand-off of this Write can follow", "wrMu is released while further hand-offs of the same Write can follow: the remainder of a partially consumed Write interleaves with another Write")
				}
			}
		}
	})
	// entry: the exported Write reaches the channels
	w := p.Func("netio", "PipeConn", "Write")
	r.Check(performs[w.Obj], rule, "netio.(*PipeConn).Write:reaches-hand-off", p.posStr(w.Body.Pos()), "Write reaches the write-side channels", "Write does not reach the write-side channels")
	// only methods of PipeConn touch the pipe channels
	p.AllFuncs(pkg, func(f *FuncCtx) {
		if len(pipeChanOps(f)) > 0 {
			recv := f.RecvObj()
			r.Check(recv != nil && namedTypeName(recv.Type()) == "PipeConn", rule, "who-uses-pipe-channels:"+f.Name, p.posStr(f.Body.Pos()), "a PipeConn method", "pipe channels used outside PipeConn methods")
		}
	})
	r.Count("write_side_operations", nOps)
	r.Floor(rule, 8)
}

func c15R5(p *Prog, r *Report) {
	const rule = "C15-R5"
	r.Rule(rule, "deadline object: pipeDeadline.timer/cancel are accessed under pipeDeadline.mu (exception: the AfterFunc callback closes cancel unlocked, sound because set stops the timer or waits for the callback before it may re-make cancel); cancel is re-made only when observed closed; a past deadline closes cancel; wait returns cancel under the lock")
	spec := &guardSpec{Rule: rule, PkgRel: "netio", OwnerType: "pipeDeadline", MuField: "mu",
		Fields:       map[string]map[string]bool{"pipeDeadline": {"timer": true, "cancel": true}},
		NoLockNeeded: map[string]string{},
	}
	// run guard, then reinterpret the one allowed exception
	sub := NewReport("tmp", "quick")
	sub.Rule(rule, "")
	runGuard(p, sub, spec)
	set := p.Func("netio", "pipeDeadline", "set")
	for _, o := range sub.Obs {
		if o.Status == "violation" {
			// the AfterFunc callback
			isCallback := false
			for _, lit := range set.Lits() {
				lc := p.LitCtx(set, lit)
				if len(o.Construct) >= len(lc.Name) && o.Construct[:len(lc.Name)] == lc.Name {
					// callback body must be exactly close(d.cancel)
					calls := lc.AllCalls()
					if len(calls) == 1 {
						if id, ok := ast.Unparen(calls[0].Call.Fun).(*ast.Ident); ok && id.Name == "close" {
							isCallback = true
						}
					}
				}
			}
			if isCallback {
				r.OK(rule, o.Construct, o.Pos, "reviewed exception: timer callback does nothing but close(d.cancel)")
				continue
			}
		}
		r.Obs = append(r.Obs, o)
	}
	info := set.Info()
	// stop-or-wait dominates every re-make of cancel
	var stopV = -1
	for _, cs := range set.AllCalls() {
		if cs.Fn != nil && cs.Fn.Name() == "Stop" && namedTypeName(recvTypeOf(cs.Fn)) == "Timer" {
			stopV = cs.V
		}
	}
	var remakes []int
	for _, v := range set.G.V {
		as, ok := v.Node.(*ast.AssignStmt)
		if !ok || len(as.Lhs) != 1 {
			continue
		}
		if sel, ok := ast.Unparen(as.Lhs[0]).(*ast.SelectorExpr); ok && sel.Sel.Name == "cancel" {
			remakes = append(remakes, v.ID)
		}
	}
	r.Check(stopV >= 0, rule, "netio.(*pipeDeadline).set:stops-timer", p.posStr(set.Body.Pos()), "the previous timer is stopped first", "the previous timer is never stopped: an old timer fires into the new deadline")
	// closedness variable
	var closedObj types.Object
	for _, cs := range set.CallsTo(isFn(mp("netio"), "", "isClosedChan")) {
		if cs.ResultVar(0) != nil {
			closedObj = cs.ResultVar(0)
		}
	}
	for i, rm := range remakes {
		// every path to the re-make either found no timer (d.timer == nil) or called Stop
		var through []Edge
		if stopV >= 0 {
			through = append(through, set.G.V[stopV].Succs...)
		}
		through = append(through, set.TestEdges(func(x ast.Expr) bool {
			sel, ok := ast.Unparen(x).(*ast.SelectorExpr)
			return ok && sel.Sel.Name == "timer"
		}, WantNil)...)
		ok1 := stopV >= 0 && set.G.EdgeDominates(through, rm)
		ok2 := false
		if closedObj != nil {
			ok2 = set.G.EdgeDominates(set.TestEdges(func(x ast.Expr) bool { return objOf(info, x) == closedObj }, WantTrue), rm)
		}
		r.Check(ok1 && ok2, rule, fmt.Sprintf("netio.(*pipeDeadline).set:remake-cancel#%d", i), p.posStr(set.G.V[rm].Node.Pos()), "cancel is re-made only after the old timer was stopped/awaited and only when cancel was observed closed", "cancel can be replaced while still open or while an old timer callback may close it: waiters on the old channel are never woken / the callback closes a closed channel")
	}
	// wait-for-callback: `<-d.cancel` guarded by !Stop()
	waited := false
	for _, v := range set.G.V {
		if es, ok := v.Node.(*ast.ExprStmt); ok {
			if u, ok := ast.Unparen(es.X).(*ast.UnaryExpr); ok && u.Op == token.ARROW {
				if sel, ok := ast.Unparen(u.X).(*ast.SelectorExpr); ok && sel.Sel.Name == "cancel" {
					waited = true
				}
			}
		}
	}
	r.Check(waited, rule, "netio.(*pipeDeadline).set:waits-for-running-callback", p.posStr(set.Body.Pos()), "when Stop reports the callback already started, set waits for it to close cancel", "set does not wait for a timer callback that already started: the callback may close the re-made channel (spurious timeout) or a closed one (panic)")
	// past deadline closes
	closes := 0
	for _, cs := range set.AllCalls() {
		if id, ok := ast.Unparen(cs.Call.Fun).(*ast.Ident); ok && id.Name == "close" {
			closes++
			if closedObj != nil {
				ok := set.G.EdgeDominates(set.TestEdges(func(x ast.Expr) bool { return objOf(info, x) == closedObj }, WantFalse), cs.V)
				r.Check(ok, rule, "netio.(*pipeDeadline).set:close-only-if-open", cs.Pos(), "close(cancel) only when observed open", "close of an already closed channel is reachable (panic)")
			}
		}
	}
	r.Check(closes == 1, rule, "netio.(*pipeDeadline).set:past-deadline-closes", p.posStr(set.Body.Pos()), "a past deadline closes cancel immediately", "a deadline in the past does not close cancel: pending calls are not unblocked")
	r.Floor(rule, 10)
}

func c15R6(p *Prog, r *Report) {
	const rule = "C15-R6"
	r.Rule(rule, "SetDeadline applies to both directions on every path (the write deadline must be set even when the read side reports closed, and vice versa); SetReadDeadline/SetWriteDeadline reach their own deadline object's set with the caller's time")
	sd := p.Func("netio", "PipeConn", "SetDeadline")
	for _, callee := range []string{"SetReadDeadline", "SetWriteDeadline"} {
		ok := false
		for _, cs := range sd.CallsTo(isFn(mp("netio"), "PipeConn", callee)) {
			if sd.G.Dominates([]int{cs.V}, sd.G.Exit) && len(cs.Call.Args) == 1 && objOf(sd.Info(), cs.Call.Args[0]) == sd.ParamObj(0) {
				ok = true
			}
		}
		r.Check(ok, rule, "netio.(*PipeConn).SetDeadline:always-calls:"+callee, p.posStr(sd.Body.Pos()), "called with t on every path", callee+" is skipped on some path (e.g. when the other side reports closed): a half-closed end keeps a stale or missing deadline and a pending call is never unblocked")
	}
	for _, d := range [][2]string{{"SetReadDeadline", "readDeadline"}, {"SetWriteDeadline", "writeDeadline"}} {
		fc := p.Func("netio", "PipeConn", d[0])
		ok := false
		for _, cs := range fc.CallsTo(isFn(mp("netio"), "pipeDeadline", "set")) {
			if sel, isSel := ast.Unparen(cs.Call.Fun).(*ast.SelectorExpr); isSel {
				if fs, isSel := ast.Unparen(sel.X).(*ast.SelectorExpr); isSel && fs.Sel.Name == d[1] && len(cs.Call.Args) == 1 && objOf(fc.Info(), cs.Call.Args[0]) == fc.ParamObj(0) {
					// reached on every path that returns nil
					all := true
					for _, ret := range fc.Returns() {
						if fc.ErrAtReturn(ret) != ErrNonNil && !fc.G.Dominates([]int{cs.V}, ret) {
							all = false
						}
					}
					ok = all
				}
			}
		}
		r.Check(ok, rule, "netio.(*PipeConn)."+d[0]+":sets-own-deadline", p.posStr(fc.Body.Pos()), "p."+d[1]+".set(t) precedes every successful return", d[0]+" can report success without setting p."+d[1]+" (or sets the other direction's deadline)")
	}
	r.Floor(rule, 4)
}

// returnsCloseError reports whether call c (callee fn) yields the direction's stored close error:
// p.<errField>.Load(), or a PipeConn helper all of whose non-constant returns load that field.
func returnsCloseError(p *Prog, fc *FuncCtx, fn *types.Func, c *ast.CallExpr, errField string) bool {
	if fn == nil {
		return false
	}
	isLoad := func(info *types.Info, e ast.Expr) bool {
		cc, ok := ast.Unparen(e).(*ast.CallExpr)
		if !ok {
			return false
		}
		f := Callee(info, cc)
		if f == nil || f.Name() != "Load" || namedTypeName(recvTypeOf(f)) != "onceError" {
			return false
		}
		sel, ok := ast.Unparen(cc.Fun).(*ast.SelectorExpr)
		if !ok {
			return false
		}
		fs, ok := ast.Unparen(sel.X).(*ast.SelectorExpr)
		return ok && fs.Sel.Name == errField
	}
	if isLoad(fc.Info(), c) {
		return true
	}
	hc := p.CtxOfObj(fn)
	if hc == nil || namedTypeName(recvTypeOf(fn)) != "PipeConn" {
		return false
	}
	loads := 0
	for _, cs := range hc.AllCalls() {
		if isLoad(hc.Info(), cs.Call) {
			loads++
		}
	}
	return loads >= 1
}
