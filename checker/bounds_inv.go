package main

// bounds_inv.go: invariants of unexported integer struct fields, inferred from every place the
// field is written (composite literals, assignments): a constant lower bound and, when every
// written value is a constant, the finite set of values. A field of a type that is also
// created as a zero value (var x T, new(T), by-value embedding) additionally takes the value 0.

import (
	"go/ast"
	"go/token"
	"go/types"
	"sort"

	"golang.org/x/tools/go/packages"
)

type fieldInv struct {
	hasLo bool
	lo    int64
	set   []int64 // finite value set (sorted) or nil
	why   string
	// slice-typed fields: constant lower bounds of len and cap
	isSlice      bool
	lenLo, capLo int64
}

type fieldWrite struct {
	fc   *FuncCtx
	v    int
	expr ast.Expr // nil: zero value
	op   token.Token
}

func (e *boundsEngine) computeFieldInvariants(pkgs []*packages.Package, fcs []*FuncCtx) {
	e.fieldInv = map[*types.Var]*fieldInv{}
	writes := map[*types.Var][]fieldWrite{}
	interesting := map[*types.Var]bool{}
	structOf := map[*types.Var]*types.Named{}
	for _, pkg := range pkgs {
		sc := pkg.Types.Scope()
		for _, name := range sc.Names() {
			tn, ok := sc.Lookup(name).(*types.TypeName)
			if !ok {
				continue
			}
			nt, ok := tn.Type().(*types.Named)
			if !ok {
				continue
			}
			st, ok := nt.Underlying().(*types.Struct)
			if !ok {
				continue
			}
			for i := 0; i < st.NumFields(); i++ {
				f := st.Field(i)
				_, isSl := f.Type().Underlying().(*types.Slice)
				if f.Exported() || (!isIntType(f.Type()) && !isSl) {
					continue
				}
				interesting[f] = true
				structOf[f] = nt
			}
		}
	}
	// zero values: any variable / field / element of the struct type by value, or new(T)
	zeroable := map[*types.Named]bool{}
	byValue := func(t types.Type) *types.Named {
		for {
			switch u := t.(type) {
			case *types.Named:
				if _, ok := u.Underlying().(*types.Struct); ok {
					return u.Origin()
				}
				return nil
			case *types.Slice:
				t = u.Elem()
			case *types.Array:
				t = u.Elem()
			case *types.Map:
				t = u.Elem()
			case *types.Alias:
				t = types.Unalias(u)
			default:
				return nil
			}
		}
	}
	for _, pkg := range e.p.All {
		if pkg.TypesInfo == nil {
			continue
		}
		info := pkg.TypesInfo
		for _, o := range info.Defs {
			if v, ok := o.(*types.Var); ok && v.IsField() {
				if nt := byValue(v.Type()); nt != nil {
					zeroable[nt] = true
				}
			}
		}
		for _, file := range pkg.Syntax {
			ast.Inspect(file, func(n ast.Node) bool {
				switch x := n.(type) {
				case *ast.ValueSpec:
					if len(x.Values) == 0 && x.Type != nil {
						if nt := byValue(info.TypeOf(x.Type)); nt != nil {
							zeroable[nt] = true
						}
					}
				case *ast.CallExpr:
					if id, ok := ast.Unparen(x.Fun).(*ast.Ident); ok && (id.Name == "new" || id.Name == "make") && len(x.Args) >= 1 {
						if nt := byValue(info.TypeOf(x.Args[0])); nt != nil {
							zeroable[nt] = true
						}
					}
				case *ast.CompositeLit:
					// elements of slice/array/map literals given without their own type are literals too: handled below per literal
				}
				return true
			})
		}
	}
	for _, fc := range fcs {
		info := fc.Info()
		for _, v := range fc.G.V {
			if v.Node == nil {
				continue
			}
			inspectNoLit(v.Node, func(n ast.Node) bool {
				switch x := n.(type) {
				case *ast.CallExpr:
					if id, ok := ast.Unparen(x.Fun).(*ast.Ident); ok && id.Name == "new" && len(x.Args) == 1 {
						if nt := byValue(info.TypeOf(x.Args[0])); nt != nil {
							zeroable[nt] = true
						}
					}
				case *ast.CompositeLit:
					t := info.TypeOf(x)
					if t == nil {
						return true
					}
					nt, ok := types.Unalias(t).(*types.Named)
					if !ok {
						return true
					}
					st, ok := nt.Underlying().(*types.Struct)
					if !ok {
						return true
					}
					given := map[*types.Var]ast.Expr{}
					for i, el := range x.Elts {
						if kv, ok := el.(*ast.KeyValueExpr); ok {
							if id, ok := kv.Key.(*ast.Ident); ok {
								if f, ok := info.Uses[id].(*types.Var); ok {
									given[originVar(f)] = kv.Value
								}
							}
						} else if i < st.NumFields() {
							given[originVar(st.Field(i))] = el
						}
					}
					ost := nt.Origin().Underlying().(*types.Struct)
					for i := 0; i < ost.NumFields(); i++ {
						f := ost.Field(i)
						if !interesting[f] {
							continue
						}
						writes[f] = append(writes[f], fieldWrite{fc: fc, v: v.ID, expr: given[f], op: token.ASSIGN})
					}
				case *ast.AssignStmt:
					for i, l := range x.Lhs {
						sel, ok := ast.Unparen(l).(*ast.SelectorExpr)
						if !ok {
							continue
						}
						s := info.Selections[sel]
						if s == nil || s.Kind() != types.FieldVal {
							continue
						}
						f := originVar(s.Obj().(*types.Var))
						if !interesting[f] {
							continue
						}
						var rhs ast.Expr
						if len(x.Lhs) == len(x.Rhs) {
							rhs = x.Rhs[i]
						}
						writes[f] = append(writes[f], fieldWrite{fc: fc, v: v.ID, expr: rhs, op: x.Tok})
						if rhs == nil {
							writes[f] = append(writes[f], fieldWrite{fc: fc, v: -1})
						}
					}
				case *ast.IncDecStmt:
					if sel, ok := ast.Unparen(x.X).(*ast.SelectorExpr); ok {
						if s := info.Selections[sel]; s != nil && s.Kind() == types.FieldVal {
							f := originVar(s.Obj().(*types.Var))
							if interesting[f] {
								writes[f] = append(writes[f], fieldWrite{fc: fc, v: v.ID, op: x.Tok})
							}
						}
					}
				case *ast.UnaryExpr:
					// &x.f escapes: no invariant
					if x.Op == token.AND {
						if sel, ok := ast.Unparen(x.X).(*ast.SelectorExpr); ok {
							if s := info.Selections[sel]; s != nil && s.Kind() == types.FieldVal {
								f := originVar(s.Obj().(*types.Var))
								if interesting[f] {
									writes[f] = append(writes[f], fieldWrite{fc: fc, v: -1})
								}
							}
						}
					}
				}
				return true
			})
		}
	}
	var fields []*types.Var
	for f := range interesting {
		fields = append(fields, f)
	}
	sort.Slice(fields, func(i, j int) bool { return fields[i].Pos() < fields[j].Pos() })
	for round := 0; round < 3; round++ {
		for _, fc := range fcs {
			delete(e.ctxs, fc)
		}
		next := map[*types.Var]*fieldInv{}
		for _, f := range fields {
			ws := writes[f]
			if zeroable[structOf[f]] {
				ws = append(ws, fieldWrite{v: -2})
			}
			if len(ws) == 0 {
				// never written: always zero
				next[f] = &fieldInv{hasLo: true, lo: 0, set: []int64{0}, why: "never written"}
				continue
			}
			if _, isSl := f.Type().Underlying().(*types.Slice); isSl {
				inv := &fieldInv{isSlice: true}
				okAll := true
				type lc struct {
					ln, cp LF
					facts  []LF
				}
				var vals []lc
				for _, w := range ws {
					switch {
					case w.v == -1:
						okAll = false
					case w.v == -2 || (w.expr == nil && w.op == token.ASSIGN):
						vals = append(vals, lc{ln: LF{}, cp: LF{}})
					case w.op == token.ASSIGN || w.op == token.DEFINE:
						b := e.ctx(w.fc)
						b.useAt = w.v
						var side []LF
						ln, cp := b.sliceLen(w.expr, w.v, &side)
						pf, neq := b.pathFacts(w.v)
						vals = append(vals, lc{ln: ln, cp: cp, facts: strengthen(append(pf, side...), neq)})
						b.useAt = -1
					default:
						okAll = false
					}
				}
				if !okAll {
					next[f] = nil
					continue
				}
				best := func(get func(v lc) LF) int64 {
					cands := map[int64]bool{0: true}
					for _, v := range vals {
						if c, ok := get(v)[""]; ok && c.IsInt64() {
							cands[c.Int64()] = true
						}
						// constants compared with in the facts
						for _, fct := range v.facts {
							if c, ok := fct[""]; ok && c.IsInt64() {
								cands[-c.Int64()] = true
								cands[c.Int64()] = true
							}
						}
					}
					var cs []int64
					for k := range cands {
						if k >= 0 {
							cs = append(cs, k)
						}
					}
					sort.Slice(cs, func(i, j int) bool { return cs[i] > cs[j] })
					for _, k := range cs {
						ok := true
						for _, v := range vals {
							if !proves(v.facts, get(v).addConst(-k)) {
								ok = false
								break
							}
						}
						if ok {
							return k
						}
					}
					return 0
				}
				inv.lenLo = best(func(v lc) LF { return v.ln })
				inv.capLo = best(func(v lc) LF { return v.cp })
				if inv.capLo < inv.lenLo {
					inv.capLo = inv.lenLo
				}
				next[f] = inv
				continue
			}
			inv := &fieldInv{}
			// finite set
			set := map[int64]bool{}
			finite := true
			type valued struct {
				lf    LF
				facts []LF
			}
			var vals []valued
			unknown := false
			for _, w := range ws {
				switch {
				case w.v == -1:
					unknown = true
				case w.v == -2 || (w.expr == nil && w.op == token.ASSIGN):
					set[0] = true
					vals = append(vals, valued{lf: LF{}})
				case w.op == token.ASSIGN || w.op == token.DEFINE:
					b := e.ctx(w.fc)
					b.useAt = w.v
					var side []LF
					t := b.term(w.expr, w.v, &side)
					pf, neq := b.pathFacts(w.v)
					facts := strengthen(append(pf, side...), neq)
					vals = append(vals, valued{lf: t, facts: facts})
					if vs, ok := b.valueSet(w.expr, w.v, 0); ok {
						for _, k := range vs {
							set[k] = true
						}
					} else {
						finite = false
					}
					b.useAt = -1
				case w.op == token.ADD_ASSIGN || w.op == token.INC:
					finite = false
					if w.expr != nil {
						b := e.ctx(w.fc)
						var side []LF
						t := b.term(w.expr, w.v, &side)
						pf, neq := b.pathFacts(w.v)
						if !proves(strengthen(append(pf, side...), neq), t) {
							unknown = true
						}
					}
				default:
					unknown = true
				}
			}
			if unknown {
				next[f] = nil
				continue
			}
			if finite && len(set) > 0 && len(set) <= 8 {
				for k := range set {
					inv.set = append(inv.set, k)
				}
				sort.Slice(inv.set, func(i, j int) bool { return inv.set[i] < inv.set[j] })
				inv.hasLo, inv.lo = true, inv.set[0]
				next[f] = inv
				continue
			}
			// lower bound: largest candidate constant provable for every write
			cands := map[int64]bool{0: true}
			for _, v := range vals {
				if c, ok := v.lf[""]; ok && c.IsInt64() {
					cands[c.Int64()] = true
				}
			}
			var cs []int64
			for k := range cands {
				cs = append(cs, k)
			}
			sort.Slice(cs, func(i, j int) bool { return cs[i] > cs[j] })
			for _, k := range cs {
				ok := true
				for _, v := range vals {
					if !proves(v.facts, v.lf.addConst(-k)) {
						ok = false
						break
					}
				}
				if ok {
					inv.hasLo, inv.lo = true, k
					break
				}
			}
			if inv.hasLo {
				next[f] = inv
			}
		}
		e.fieldInv = next
	}
	for _, fc := range fcs {
		delete(e.ctxs, fc)
	}
}

func originVar(v *types.Var) *types.Var { return v.Origin() }

// valueSet: the finite set of constants expression e may evaluate to at vertex at.
func (b *bctx) valueSet(e ast.Expr, at int, depth int) ([]int64, bool) {
	if depth > 3 {
		return nil, false
	}
	if k, ok := constInt(b.info, e); ok {
		return []int64{k}, true
	}
	id, ok := ast.Unparen(e).(*ast.Ident)
	if !ok {
		return nil, false
	}
	o := objOf(b.info, id)
	v, isVar := o.(*types.Var)
	if !isVar || v.IsField() || !b.declaredHere(o) || len(b.fc.nonDeferredLitAssigns(o)) > 0 {
		return nil, false
	}
	if _, isParam := b.params[o]; isParam {
		return nil, false
	}
	var out []int64
	for _, d := range b.reachingDefs(at, o) {
		if d == b.fc.G.Entry {
			out = append(out, 0)
			continue
		}
		dv := b.fc.G.V[d]
		got := false
		switch st := dv.Node.(type) {
		case *ast.AssignStmt:
			if dv.Kind == VStmt && len(st.Lhs) == len(st.Rhs) && (st.Tok == token.ASSIGN || st.Tok == token.DEFINE) {
				for i, l := range st.Lhs {
					if objOf(b.info, l) == o {
						vs, ok := b.valueSet(st.Rhs[i], d, depth+1)
						if !ok {
							return nil, false
						}
						out = append(out, vs...)
						got = true
					}
				}
			}
		case *ast.ValueSpec:
			for i, n := range st.Names {
				if b.info.Defs[n] != o {
					continue
				}
				if len(st.Values) == 0 {
					out = append(out, 0)
					got = true
				} else if len(st.Values) == len(st.Names) {
					vs, ok := b.valueSet(st.Values[i], d, depth+1)
					if !ok {
						return nil, false
					}
					out = append(out, vs...)
					got = true
				}
			}
		}
		if !got {
			return nil, false
		}
	}
	return out, len(out) > 0
}
