package main

// guard.go: "these fields are only touched with that mutex held" — a lockset rule engine.

import (
	"fmt"
	"go/ast"
	"go/token"
	"go/types"
	"sort"
)

type guardSpec struct {
	Rule      string
	PkgRel    string
	OwnerType string                     // struct type that owns the mutex
	MuField   string                     // name of the mutex field in OwnerType
	Fields    map[string]map[string]bool // type name -> guarded field names
	// Helpers are methods of OwnerType that require the lock on entry; value = state assumed.
	// Every call site of a helper is checked to hold at least that state.
	Helpers map[string]LockState
	// SyncCallees are methods of OwnerType (or other functions, by name) that invoke a function
	// argument synchronously before returning: a literal passed to them inherits the lock state
	// at the call.
	SyncCallees map[string]bool
	// WriteUnderRead lists constructs "<func>:<field>" where a write under the read lock is a
	// reviewed exception, with the reason.
	WriteUnderRead map[string]string
	// NoLockNeeded lists functions in which accesses are exempt (object not yet published), with reason.
	NoLockNeeded map[string]string
}

type guardAccess struct {
	FC    *FuncCtx
	A     FieldAccess
	State LockState
	Type  string
}

// runGuard checks spec over every function of the package and returns the accesses examined.
func runGuard(p *Prog, r *Report, spec *guardSpec) []guardAccess {
	pkg := p.Pkg(spec.PkgRel)
	var all []guardAccess
	pkgPath := mp(spec.PkgRel)

	var visit func(fc *FuncCtx, owner types.Object, entry LockState)
	visit = func(fc *FuncCtx, owner types.Object, entry LockState) {
		info := fc.Info()
		muKey := ""
		if owner != nil {
			muKey = fmt.Sprintf("%p.%s", owner, spec.MuField)
		}
		var states []LockState
		if muKey != "" {
			states = fc.LockStates(muKey, entry)
		}
		type acc struct {
			a  FieldAccess
			tn string
		}
		var accs []acc
		var tnames []string
		for tn := range spec.Fields {
			tnames = append(tnames, tn)
		}
		sort.Strings(tnames)
		for _, tn := range tnames {
			for _, a := range fc.FieldAccesses(pkgPath, tn, spec.Fields[tn]) {
				accs = append(accs, acc{a, tn})
			}
		}
		perField := map[string]int{}
		for _, x := range accs {
			a := x.a
			ord := perField[x.tn+"."+a.Field.Name()]
			perField[x.tn+"."+a.Field.Name()]++
			fname := fc.Name
			construct := fmt.Sprintf("%s:%s.%s#%d", fname, x.tn, a.Field.Name(), ord)
			pos := p.posStr(a.Sel.Pos())
			if reason, ok := spec.NoLockNeeded[fname]; ok {
				r.OK(spec.Rule, construct, pos, "exempt: "+reason)
				continue
			}
			if x.tn == spec.OwnerType && underConstruction(fc, a.Sel.X, spec.OwnerType) {
				r.OK(spec.Rule, construct, pos, "exempt: the object is being built in this function and is not yet reachable by anyone else")
				continue
			}
			st := LUnlocked
			if x.tn == spec.OwnerType {
				// the mutex is the one of the object being accessed
				k := pathKey(info, a.Sel.X)
				if k == "" {
					r.Fail(spec.Rule, construct, pos, "undecided: cannot identify the object whose field is accessed")
					continue
				}
				mk := k + "." + spec.MuField
				if mk == muKey && states != nil {
					st = states[a.V]
				} else {
					st = fc.LockStates(mk, LUnlocked)[a.V]
				}
			} else if states != nil {
				st = states[a.V]
			}
			all = append(all, guardAccess{fc, a, st, x.tn})
			kind := "read"
			if a.Write {
				kind = "write"
			}
			ok := st == LWrite || (!a.Write && st == LRead)
			if !ok && a.Write && st == LRead {
				if reason, exc := spec.WriteUnderRead[baseFuncName(fc)+":"+a.Field.Name()]; exc {
					r.OK(spec.Rule, construct, pos, "write under read lock, reviewed exception: "+reason)
					continue
				}
			}
			r.Check(ok, spec.Rule, construct, pos, kind+" with "+spec.OwnerType+"."+spec.MuField+" "+st.String(),
				fmt.Sprintf("%s of %s.%s while %s.%s is %s", kind, x.tn, a.Field.Name(), spec.OwnerType, spec.MuField, st))
		}
		// literals
		for _, lit := range fc.Lits() {
			lc := p.LitCtx(fc, lit)
			le := LUnlocked
			// literal passed to a synchronous callee inherits the state at the call
			for _, cs := range fc.AllCalls() {
				for _, arg := range cs.Call.Args {
					if ast.Unparen(arg) == lit && cs.Fn != nil && spec.SyncCallees[cs.Fn.Name()] && states != nil {
						le = states[cs.V]
					}
				}
				// immediately invoked literal (not deferred / go)
				if ast.Unparen(cs.Call.Fun) == lit && states != nil {
					v := fc.G.V[cs.V]
					_, isDefer := v.Node.(*ast.DeferStmt)
					_, isGo := v.Node.(*ast.GoStmt)
					if !isDefer && !isGo {
						le = states[cs.V]
					}
				}
			}
			// literal bound to a local (f := func…) that is only ever passed to synchronous
			// callees or called directly: the weakest state over those uses
			if st, ok := boundLitState(fc, lit, spec, states); ok {
				le = st
			}
			visit(lc, owner, le)
		}
	}

	inferred := inferHelperLockStates(p, spec)
	p.AllFuncs(pkg, func(fc *FuncCtx) {
		var owner types.Object
		entry := LUnlocked
		if recv := fc.RecvObj(); recv != nil && namedTypeName(recv.Type()) == spec.OwnerType {
			owner = recv
			if st, ok := spec.Helpers[fc.Obj.Name()]; ok {
				entry = st
			} else if st, ok := inferred[fc.Obj.Name()]; ok {
				entry = st
			}
		}
		visit(fc, owner, entry)
		// helper call sites
		if owner != nil {
			muKey := fmt.Sprintf("%p.%s", owner, spec.MuField)
			var states []LockState
			checkCalls := func(c *FuncCtx, st func(v int) LockState) {
				for _, cs := range c.AllCalls() {
					if cs.Fn == nil {
						continue
					}
					need, isHelper := spec.Helpers[cs.Fn.Name()]
					if !isHelper || namedTypeName(recvTypeOf(cs.Fn)) != spec.OwnerType {
						continue
					}
					have := st(cs.V)
					ok := have == LWrite || (need == LRead && have == LRead)
					r.Check(ok, spec.Rule, fmt.Sprintf("%s:calls-helper:%s", c.Name, cs.Fn.Name()), cs.Pos(),
						fmt.Sprintf("helper %s (requires %s) called with lock %s", cs.Fn.Name(), need, have),
						fmt.Sprintf("helper %s requires the lock (%s) but is called with lock state %s", cs.Fn.Name(), need, have))
				}
			}
			states = fc.LockStates(muKey, entry)
			checkCalls(fc, func(v int) LockState { return states[v] })
			for _, lit := range fc.Lits() {
				checkCalls(p.LitCtx(fc, lit), func(int) LockState { return LUnlocked })
			}
		}
	})
	return all
}

// inferHelperLockStates computes the lock state inherited by unexported methods of the owner
// type: a method that is only ever called directly (never used as a value) runs with at least
// the weakest lock state found at its call sites. Fixpoint from an optimistic start; manual
// entries of spec.Helpers take precedence.
func inferHelperLockStates(p *Prog, spec *guardSpec) map[string]LockState {
	pkg := p.Pkg(spec.PkgRel)
	// Lock state inherited by unexported methods of the owner type: a method that is only ever
	// called directly (never used as a value) runs with at least the weakest lock state found
	// at its call sites. Computed as a fixpoint, starting from "unlocked" for everything that
	// is exported or referenced other than by a direct call.
	inferred := map[string]LockState{}
	if spec.Helpers == nil {
		spec.Helpers = map[string]LockState{}
	}
	manual := map[string]bool{}
	for k := range spec.Helpers {
		manual[k] = true
	}
	{
		type site struct {
			fc *FuncCtx
			v  int
			mk string
		}
		sites := map[string][]site{}
		candidates := map[string]*FuncCtx{}
		otherRefs := map[string]bool{}
		p.AllFuncs(pkg, func(fc *FuncCtx) {
			if fc.Obj != nil && !fc.Obj.Exported() {
				if recv := fc.RecvObj(); recv != nil && namedTypeName(recv.Type()) == spec.OwnerType {
					candidates[fc.Obj.Name()] = fc
				}
			}
		})
		p.AllFuncs(pkg, func(fc *FuncCtx) {
			for _, ctx := range allCtxs(p, fc) {
				info := ctx.Info()
				callFun := map[ast.Expr]bool{}
				for _, cs := range ctx.AllCalls() {
					callFun[ast.Unparen(cs.Call.Fun)] = true
					if cs.Fn == nil || candidates[cs.Fn.Name()] == nil || namedTypeName(recvTypeOf(cs.Fn)) != spec.OwnerType {
						continue
					}
					sel, ok := ast.Unparen(cs.Call.Fun).(*ast.SelectorExpr)
					if !ok {
						otherRefs[cs.Fn.Name()] = true
						continue
					}
					k := pathKey(info, sel.X)
					if k == "" {
						otherRefs[cs.Fn.Name()] = true
						continue
					}
					sites[cs.Fn.Name()] = append(sites[cs.Fn.Name()], site{ctx, cs.V, k + "." + spec.MuField})
				}
				// method values (s.helper passed around) defeat the inference
				ast.Inspect(ctx.Body, func(n ast.Node) bool {
					if _, isLit := n.(*ast.FuncLit); isLit && n != ast.Node(ctx.Lit) {
						return false
					}
					if sel, ok := n.(*ast.SelectorExpr); ok && !callFun[sel] {
						if s := info.Selections[sel]; s != nil && s.Kind() == types.MethodVal && candidates[sel.Sel.Name] != nil {
							otherRefs[sel.Sel.Name] = true
						}
					}
					return true
				})
			}
		})
		// entry state of a context for a given mutex key
		var entryOf func(ctx *FuncCtx, mk string) LockState
		entryOf = func(ctx *FuncCtx, mk string) LockState {
			top := ctx
			for top.Parent != nil {
				return LUnlocked // literals: conservatively unlocked (synchronous callbacks are handled in visit)
			}
			if top.Obj == nil {
				return LUnlocked
			}
			if recv := top.RecvObj(); recv != nil && fmt.Sprintf("%p.%s", recv, spec.MuField) == mk {
				if st, ok := spec.Helpers[top.Obj.Name()]; ok && namedTypeName(recv.Type()) == spec.OwnerType {
					return st
				}
				if st, ok := inferred[top.Obj.Name()]; ok {
					return st
				}
			}
			return LUnlocked
		}
		for name := range candidates {
			if !manual[name] && !otherRefs[name] && len(sites[name]) > 0 {
				inferred[name] = LWrite // optimistic start, lowered below
			}
		}
		for round := 0; round < 6; round++ {
			changed := false
			for name := range inferred {
				st := LWrite
				for _, s := range sites[name] {
					have := s.fc.LockStates(s.mk, entryOf(s.fc, s.mk))[s.v]
					switch {
					case have == LWrite:
					case have == LRead:
						if st == LWrite {
							st = LRead
						}
					default:
						st = LUnlocked
					}
				}
				if st != inferred[name] {
					inferred[name] = st
					changed = true
				}
			}
			if !changed {
				break
			}
		}
	}
	return inferred
}

func recvTypeOf(fn *types.Func) types.Type {
	sig := fn.Type().(*types.Signature)
	if sig.Recv() == nil {
		return nil
	}
	return sig.Recv().Type()
}

func baseFuncName(fc *FuncCtx) string {
	for fc.Parent != nil {
		fc = fc.Parent
	}
	if fc.Obj != nil {
		return fc.Obj.Name()
	}
	return fc.Name
}

// boundLitState: lit is the sole definition of a local variable whose every other occurrence is
// an argument of a synchronous callee or the function of a plain (not go/defer) call; the result
// is the weakest lock state over those occurrences.
func boundLitState(fc *FuncCtx, lit *ast.FuncLit, spec *guardSpec, states []LockState) (LockState, bool) {
	if states == nil {
		return LUnlocked, false
	}
	info := fc.Info()
	var obj types.Object
	for _, v := range fc.G.V {
		switch n := v.Node.(type) {
		case *ast.AssignStmt:
			for i, rhs := range n.Rhs {
				if ast.Unparen(rhs) == lit && len(n.Lhs) == len(n.Rhs) {
					obj = objOf(info, n.Lhs[i])
				}
			}
		case *ast.ValueSpec:
			for i, rhs := range n.Values {
				if ast.Unparen(rhs) == lit && i < len(n.Names) {
					obj = info.Defs[n.Names[i]]
				}
			}
		}
	}
	if obj == nil {
		return LUnlocked, false
	}
	if rhs, _, _, ok := fc.SoleDefRHS(obj); !ok || ast.Unparen(rhs) != lit {
		return LUnlocked, false
	}
	accounted := map[*ast.Ident]bool{}
	st := LWrite
	n := 0
	for _, cs := range fc.AllCalls() {
		v := fc.G.V[cs.V]
		_, isDefer := v.Node.(*ast.DeferStmt)
		_, isGo := v.Node.(*ast.GoStmt)
		if id, ok := ast.Unparen(cs.Call.Fun).(*ast.Ident); ok && info.Uses[id] == obj && !isDefer && !isGo {
			accounted[id] = true
			n++
			st = meetLock(st, states[cs.V])
		}
		for _, arg := range cs.Call.Args {
			if id, ok := ast.Unparen(arg).(*ast.Ident); ok && info.Uses[id] == obj && cs.Fn != nil && spec.SyncCallees[cs.Fn.Name()] && !isDefer && !isGo {
				accounted[id] = true
				n++
				st = meetLock(st, states[cs.V])
			}
		}
	}
	other := false
	ast.Inspect(fc.Body, func(x ast.Node) bool {
		if id, ok := x.(*ast.Ident); ok && info.Uses[id] == obj && !accounted[id] {
			other = true
		}
		return true
	})
	if other || n == 0 {
		return LUnlocked, false
	}
	return st, true
}

// meetLock returns the weaker of two lock states (write > read > unlocked/unknown).
func meetLock(a, b LockState) LockState {
	rank := func(s LockState) int {
		switch s {
		case LWrite:
			return 2
		case LRead:
			return 1
		}
		return 0
	}
	if rank(b) < rank(a) {
		a = b
	}
	if rank(a) == 0 {
		return LUnlocked
	}
	return a
}

// underConstruction: e denotes a local variable of this function whose only definition is a
// fresh value of the owner type (new(T), &T{…}, T{…} or a zero declaration) — an object that no
// other goroutine can see before the function hands it out.
func underConstruction(fc *FuncCtx, e ast.Expr, typeName string) bool {
	info := fc.Info()
	o, _ := objOf(info, e).(*types.Var)
	if o == nil || o.IsField() || (o.Pkg() != nil && o.Parent() == o.Pkg().Scope()) {
		return false
	}
	if o == fc.RecvObj() {
		return false
	}
	for i := 0; fc.ParamObj(i) != nil; i++ {
		if fc.ParamObj(i) == types.Object(o) {
			return false
		}
	}
	defs := fc.Defs(o)
	if len(defs) != 1 {
		return false
	}
	switch n := fc.G.V[defs[0]].Node.(type) {
	case *ast.ValueSpec:
		return len(n.Values) == 0
	case *ast.AssignStmt:
		if len(n.Lhs) != len(n.Rhs) {
			return false
		}
		for i, l := range n.Lhs {
			if objOf(info, l) != types.Object(o) {
				continue
			}
			rhs := ast.Unparen(n.Rhs[i])
			if u, ok := rhs.(*ast.UnaryExpr); ok && u.Op == token.AND {
				rhs = ast.Unparen(u.X)
			}
			if _, ok := rhs.(*ast.CompositeLit); ok {
				return true
			}
			if c, ok := rhs.(*ast.CallExpr); ok && len(c.Args) == 1 {
				if id, ok := ast.Unparen(c.Fun).(*ast.Ident); ok && id.Name == "new" {
					return true
				}
			}
		}
	}
	return false
}
