package main

import (
	"fmt"
	"go/ast"
	"go/token"
	"go/types"
	"sort"
	"strings"
)

func init() {
	register(&PropCheck{ID: "C08", Pkgs: []string{"./cred", "./ss2022", "./api/ssm"}, Run: runC08})
}

func credGuardSpec(rule string) *guardSpec {
	return &guardSpec{
		Rule:      rule,
		PkgRel:    "cred",
		OwnerType: "ManagedServer",
		MuField:   "mu",
		Fields: map[string]map[string]bool{
			"ManagedServer":        {"cachedCredMap": true, "cachedUserLookupMap": true, "cachedContent": true},
			"cachedUserCredential": {"uPSK": true, "uPSKHash": true},
		},
		Helpers:     map[string]LockState{"saveToFile": LRead, "updateProdULM": LWrite},
		SyncCallees: map[string]bool{"updateProdULM": true, "UpdateUserLookupMap": true},
		WriteUnderRead: map[string]string{
			"saveToFile:cachedContent": "single saver goroutine (saveToFile is only called from the save worker, checked by C20-R3) and every other accessor of cachedContent takes the write lock (checked here)",
		},
	}
}

func runC08(p *Prog, r *Report) {
	r.Explanation = "Structural necessary conditions of 'the accepted key set tracks credential changes and sessions are attributed to the key's owner': lockset over the credential manager's cache, the live maps changed in the same critical section as the cache, duplicate-key refusal agreeing between load and API paths, the session cipher and the reported user name coming from one lookup result, and the management API handlers calling the matching manager operation."
	r.NotDecided = []string{"equality of the contents of the three views (cache, live maps, file) as values", "JSON encoding of the API", "cryptographic identification itself"}
	r.Assumptions = []string{"sync.RWMutex as documented; Go memory model (accesses ordered by the same mutex are race-free)", "CredStore callbacks run synchronously under CredStore.mu (checked: UpdateUserLookupMap body)"}

	const r1 = "C08-R1"
	r.Rule(r1, "every access to ManagedServer.cachedCredMap / cachedUserLookupMap / cachedContent and to the fields of the cachedUserCredential objects they hold is made with ManagedServer.mu held (write lock for writes); helpers that require the lock are only called with it")
	accs := runGuard(p, r, credGuardSpec(r1))
	r.Count("cred_guarded_accesses", len(accs))
	r.Floor(r1, 30)

	c08R2(p, r)
	c08R3(p, r)
	c08R4(p, r)
	c08R6(p, r)
	c08R7(p, r)
	c08R8(p, r)
	c08R9(p, r)
	c08R10(p, r)
	erasedErrorRequests(p, r, "C08-R12")
	c08R13(p, r)
	c08R14(p, r)
	const r11 = "C08-R11"
	r.Rule(r11, "lock balance in packages cred and ss2022: Lock/RLock only with the mutex not held by the function, Unlock/RUnlock only with the matching lock held, released at every exit (or by a deferred call) — the error returns of the credential operations included")
	nb := lockBalance(p, r, r11, "cred", nil) + lockBalance(p, r, r11, "ss2022", nil)
	r.Count("lock_operations_checked", nb)
	r.Floor(r11, 20)
	// R5: the store file follows every acknowledged change (shared with C20-R2)
	credFlushRule(p, r, "C08-R5")
}

// c08R2: live-map mutations issued by the manager happen inside the manager's write-locked section.
func c08R2(p *Prog, r *Report) {
	const rule = "C08-R2"
	r.Rule(rule, "every mutation of a live CredStore issued by a ManagedServer method (updateProdULM, CredStore.UpdateUserLookupMap, CredStore.ReplaceUserLookupMap) is made while ManagedServer.mu is write-locked, i.e. in the same critical section as the cache change it mirrors; callbacks handed to the store take no lock")
	pkg := p.Pkg("cred")
	n := 0
	inferred := inferHelperLockStates(p, &guardSpec{PkgRel: "cred", OwnerType: "ManagedServer", MuField: "mu"})
	p.AllFuncs(pkg, func(fc *FuncCtx) {
		recv := fc.RecvObj()
		if recv == nil || namedTypeName(recv.Type()) != "ManagedServer" {
			// no other function may touch live stores
			for _, cs := range fc.AllCalls() {
				if cs.Fn != nil && namedTypeName(recvTypeOf(cs.Fn)) == "CredStore" && (cs.Fn.Name() == "UpdateUserLookupMap" || cs.Fn.Name() == "ReplaceUserLookupMap") {
					n++
					r.Fail(rule, fc.Name+":"+cs.Fn.Name(), cs.Pos(), "live credential store mutated outside a ManagedServer method")
				}
			}
			return
		}
		// unexported methods inherit the weakest lock state of their call sites
		entry := LUnlocked
		if st, ok := inferred[fc.Obj.Name()]; ok {
			entry = st
		}
		states := fc.LockStates(fmt.Sprintf("%p.mu", recv), entry)
		ord := map[string]int{}
		// both live stores follow: a function that mutates one of the manager's stores mutates
		// every store the manager has — for each store field, every path through the function
		// passes the mutation of that store or the edge on which the field is nil
		c08BothStores(p, r, rule, fc)
		for _, cs := range fc.AllCalls() {
			if cs.Fn == nil {
				continue
			}
			isStoreMut := namedTypeName(recvTypeOf(cs.Fn)) == "CredStore" && (cs.Fn.Name() == "UpdateUserLookupMap" || cs.Fn.Name() == "ReplaceUserLookupMap")
			if !isStoreMut {
				continue
			}
			n++
			k := ord[cs.Fn.Name()]
			ord[cs.Fn.Name()]++
			construct := fmt.Sprintf("%s:%s#%d", fc.Name, cs.Fn.Name(), k)
			r.Check(states[cs.V] == LWrite, rule, construct, cs.Pos(),
				"issued with ManagedServer.mu write-locked",
				"live user map changed with ManagedServer.mu "+states[cs.V].String()+": two concurrent operations can reach the live maps in the opposite order to the cache, leaving a deleted or rotated key accepted (or a listed key refused)")
			// callbacks: no calls except builtins
			for _, arg := range cs.Call.Args {
				if lit, ok := ast.Unparen(fc.Resolve(arg)).(*ast.FuncLit); ok {
					lc := p.LitCtx(fc, lit)
					bad := ""
					for _, c2 := range lc.AllCalls() {
						if c2.Fn != nil {
							bad = c2.Fn.FullName()
						}
					}
					r.Check(bad == "", rule, construct+":callback-lock-free", p.posStr(lit.Pos()), "callback only performs map operations", "callback calls "+bad+" while the store lock (and the manager lock) is held")
				}
			}
		}
	})
	r.Floor(rule, 5)
	_ = n
}

// c08R3: CredStore.ulm under CredStore.mu.
func c08R3(p *Prog, r *Report) {
	const rule = "C08-R3"
	r.Rule(rule, "CredStore.ulm is read under CredStore.mu and written under its write lock; UpdateUserLookupMap runs its callback inside the write-locked section")
	spec := &guardSpec{Rule: rule, PkgRel: "ss2022", OwnerType: "CredStore", MuField: "mu",
		Fields: map[string]map[string]bool{"CredStore": {"ulm": true}}}
	runGuard(p, r, spec)
	up := p.Func("ss2022", "CredStore", "UpdateUserLookupMap")
	states := up.LockStates(fmt.Sprintf("%p.mu", up.RecvObj()), LUnlocked)
	fparam := up.ParamObj(0)
	found := false
	for _, cs := range up.AllCalls() {
		if objOf(up.Info(), cs.Call.Fun) == fparam {
			found = true
			r.Check(states[cs.V] == LWrite, rule, "ss2022.(*CredStore).UpdateUserLookupMap:callback", cs.Pos(), "callback invoked under the write lock", "callback invoked with lock "+states[cs.V].String())
		}
	}
	if !found {
		r.Fail(rule, "ss2022.(*CredStore).UpdateUserLookupMap:callback", "", "callback is never invoked")
	}
	r.Floor(rule, 4)
}

// c08R4: attribution — cipher config and user name come from one LookupUser result on its ok edge.
func c08R4(p *Prog, r *Report) {
	const rule = "C08-R4"
	r.Rule(rule, "in StreamServer.HandleStream and UDPServer.NewUnpacker the per-user cipher configuration and the reported user name are fields of the same LookupUser result, assigned only on its ok edge; a failed lookup ends in an error; the session cipher is derived from that configuration variable")
	type site struct {
		recv, name string
	}
	for _, s := range []site{{"StreamServer", "HandleStream"}, {"UDPServer", "NewUnpacker"}} {
		fc := p.Inlined(p.Func("ss2022", s.recv, s.name))
		info := fc.Info()
		prefix := "ss2022.(*" + s.recv + ")." + s.name
		lookups := fc.CallsTo(isFn(mp("ss2022"), "CredStore", "LookupUser"))
		if len(lookups) != 1 {
			r.Fail(rule, prefix+":lookup", p.posStr(fc.Body.Pos()), fmt.Sprintf("expected exactly one LookupUser call, found %d", len(lookups)))
			continue
		}
		lk := lookups[0]
		resObj, okObj := lk.ResultVar(0), lk.ResultVar(1)
		if resObj == nil || okObj == nil {
			r.Fail(rule, prefix+":lookup", lk.Pos(), "undecided: LookupUser results are not assigned to variables")
			continue
		}
		okEdges := lk.ResultEdges(1, WantTrue)
		failEdges := lk.ResultEdges(1, WantFalse)
		// failed lookup → error
		bad := ""
		if len(failEdges) == 0 {
			bad = "the ok result of LookupUser is never tested"
		}
		for _, fe := range failEdges {
			reach := fc.G.Reach([]int{fe.To}, nil, nil)
			for _, ret := range fc.ExitPreds() {
				if reach[ret] && fc.ErrAtReturn(ret) != ErrNonNil {
					bad = "a failed lookup can reach " + p.posStr(fc.G.V[ret].Node.Pos()) + " without a non-nil error"
				}
			}
		}
		r.Check(bad == "", rule, prefix+":unknown-key-is-error", lk.Pos(), "every path from !ok returns a non-nil error", bad)
		// find the cipher-config variable: assigned from <res>.UserCipherConfig
		var cfgObj types.Object
		nameAssigned := false
		for _, v := range fc.G.V {
			as, ok := v.Node.(*ast.AssignStmt)
			if !ok || v.Kind != VStmt || len(as.Lhs) != len(as.Rhs) {
				continue
			}
			for i, rhs := range as.Rhs {
				sel, ok := ast.Unparen(rhs).(*ast.SelectorExpr)
				if !ok || !fc.IsCopyOf(sel.X, resObj) {
					continue
				}
				guarded := fc.GuardedBy(lk.V, okEdges, v.ID)
				switch sel.Sel.Name {
				case "UserCipherConfig":
					cfgObj = objOf(info, as.Lhs[i])
					r.Check(guarded, rule, prefix+":cipher-config-from-lookup", p.posStr(as.Pos()), "assigned on the ok edge of the lookup", "per-user cipher configuration taken from a lookup result that may have failed")
				case "Name":
					nameAssigned = true
					r.Check(guarded, rule, prefix+":username-from-lookup", p.posStr(as.Pos()), "user name assigned on the ok edge of the same lookup result", "user name taken from a lookup result that may have failed")
				}
			}
		}
		r.Check(nameAssigned, rule, prefix+":username-assigned", lk.Pos(), "the user name is taken from the lookup result", "the user name of the looked-up user is never recorded")
		if cfgObj == nil {
			r.Fail(rule, prefix+":cipher-config-var", lk.Pos(), "the looked-up user's cipher configuration is never used")
			continue
		}
		// every def of cfgObj is either the server default (a field of the receiver) or the lookup's field
		for _, d := range fc.Defs(cfgObj) {
			okDef := false
			switch n := fc.G.V[d].Node.(type) {
			case *ast.AssignStmt:
				for i, l := range n.Lhs {
					if objOf(info, l) != cfgObj || len(n.Lhs) != len(n.Rhs) {
						continue
					}
					sel, isSel := ast.Unparen(n.Rhs[i]).(*ast.SelectorExpr)
					if !isSel {
						continue
					}
					if fc.IsCopyOf(sel.X, resObj) && sel.Sel.Name == "UserCipherConfig" {
						okDef = true
					}
					if objOf(info, sel.X) == fc.RecvObj() && sel.Sel.Name == "userCipherConfig" {
						okDef = true
					}
				}
			}
			r.Check(okDef, rule, fmt.Sprintf("%s:cipher-config-def:%s", prefix, exprStr(fc.G.V[d].Node)), p.posStr(fc.G.V[d].Node.Pos()), "definition is the server default or the looked-up user's configuration", "cipher configuration variable assigned from something other than the server default or the lookup result")
		}
		// username defs: only from resObj.Name (or zero)
		// session cipher derived from cfgObj after the lookup branch
		derived := 0
		for _, cs := range fc.AllCalls() {
			if cs.Fn == nil || namedTypeName(recvTypeOf(cs.Fn)) != "UserCipherConfig" {
				continue
			}
			if cs.Fn.Name() != "ShadowStreamCipher" && cs.Fn.Name() != "AEAD" {
				continue
			}
			sel, ok := ast.Unparen(cs.Call.Fun).(*ast.SelectorExpr)
			derived++
			r.Check(ok && objOf(info, sel.X) == cfgObj, rule, prefix+":session-cipher-from-config:"+cs.Fn.Name(), cs.Pos(), "session cipher derived from the (possibly per-user) configuration variable", "session cipher derived from a different configuration than the one attributed to the user")
		}
		if derived == 0 {
			r.Fail(rule, prefix+":session-cipher", lk.Pos(), "no session cipher derivation found")
		}
		// the config stored in the resulting conn/unpacker is cfgObj
		for _, v := range fc.G.V {
			if v.Node == nil {
				continue
			}
			inspectNoLit(v.Node, func(n ast.Node) bool {
				kv, ok := n.(*ast.KeyValueExpr)
				if !ok {
					return true
				}
				if id, isId := kv.Key.(*ast.Ident); isId && (id.Name == "cipherConfig" || id.Name == "userCipherConfig") {
					r.Check(objOf(info, kv.Value) == cfgObj, rule, prefix+":stored-config:"+id.Name, p.posStr(kv.Pos()), "the session object stores the same configuration variable", "the session object stores a different cipher configuration")
				}
				return true
			})
		}
	}
	r.Floor(rule, 14)
}

// c08R6: duplicate keys are refused wherever a key is inserted into a manager lookup map.
func c08R6(p *Prog, r *Report) {
	const rule = "C08-R6"
	r.Rule(rule, "sibling agreement on duplicate user keys: every insertion map[hash] = config into a user lookup map made by the credential manager (file load and API add/update) is reached only on the not-present edge of a membership test of the same map with the same key, so two users can never share an accepted key")
	pkg := p.Pkg("cred")
	n := 0
	p.AllFuncs(pkg, func(fc *FuncCtx) {
		info := fc.Info()
		for _, v := range fc.G.V {
			as, ok := v.Node.(*ast.AssignStmt)
			if !ok || v.Kind != VStmt {
				continue
			}
			for _, l := range as.Lhs {
				ix, ok := ast.Unparen(l).(*ast.IndexExpr)
				if !ok {
					continue
				}
				tv, ok := info.Types[ix.X]
				if !ok || namedTypeName(tv.Type) != "UserLookupMap" {
					continue
				}
				n++
				construct := fmt.Sprintf("%s:insert:%s[%s]", fc.Name, exprStr(ix.X), exprStr(ix.Index))
				// find membership tests `_, ok := M[k]` / `c, ok := M[k]`
				guarded := false
				for _, tvx := range fc.G.V {
					ts, isAs := tvx.Node.(*ast.AssignStmt)
					if !isAs || tvx.Kind != VStmt || len(ts.Rhs) != 1 || len(ts.Lhs) != 2 {
						continue
					}
					tix, isIx := ast.Unparen(ts.Rhs[0]).(*ast.IndexExpr)
					if !isIx || !samePath(info, tix.X, ix.X) || !sameKey(fc, tix.Index, ix.Index) {
						continue
					}
					okObj := objOf(info, ts.Lhs[1])
					if okObj == nil {
						continue
					}
					var edges []Edge
					for _, e := range fc.TestEdges(func(x ast.Expr) bool { return objOf(info, x) == okObj }, WantFalse) {
						if fc.SoleDef(e.From, okObj, tvx.ID) {
							edges = append(edges, e)
						}
					}
					if fc.GuardedBy(tvx.ID, edges, v.ID) {
						guarded = true
					}
				}
				r.Check(guarded, rule, construct, p.posStr(as.Pos()), "reached only when the key was found absent from the same map",
					"a user key is inserted without checking that no other user already has it: the API lists both users while only one owns the accepted key, deleting either revokes the key for both, and the saved store no longer loads (LoadFromFile refuses duplicate keys)")
			}
		}
	})
	r.Count("lookup_map_insertions", n)
	r.Floor(rule, 3)
}

// sameKey: same variable, same field path, or field path x.f where x was built by a composite
// literal in this function whose field f is the other variable.
func sameKey(fc *FuncCtx, a, b ast.Expr) bool {
	info := fc.Info()
	if oa, ob := objOf(info, a), objOf(info, b); oa != nil && oa == ob {
		return true
	}
	if samePath(info, a, b) {
		return true
	}
	via := func(x, y ast.Expr) bool { // x = uc.f ; y = ident ; uc := &T{f: y}
		sel, ok := ast.Unparen(x).(*ast.SelectorExpr)
		if !ok {
			return false
		}
		base := objOf(info, sel.X)
		oy := objOf(info, y)
		if base == nil || oy == nil {
			return false
		}
		rhs, idx, _, ok := fc.SoleDefRHS(base)
		if !ok || idx >= 0 {
			return false
		}
		if u, isU := ast.Unparen(rhs).(*ast.UnaryExpr); isU {
			rhs = u.X
		}
		cl, isCl := ast.Unparen(rhs).(*ast.CompositeLit)
		if !isCl {
			return false
		}
		for _, el := range cl.Elts {
			if kv, isKV := el.(*ast.KeyValueExpr); isKV {
				if id, isId := kv.Key.(*ast.Ident); isId && id.Name == sel.Sel.Name && objOf(info, kv.Value) == oy {
					// the field must not be reassigned in this function
					return true
				}
			}
		}
		return false
	}
	return via(a, b) || via(b, a)
}

// c08R7: API handlers call the matching manager operation with the path's user name.
func c08R7(p *Prog, r *Report) {
	const rule = "C08-R7"
	r.Rule(rule, "management API wiring: the handler registered for each (method, path) of the user endpoints reaches the matching ManagedServer operation, and operations on one user take the name from the request path value \"username\"")
	reg := p.Func("api/ssm", "ServerManager", "RegisterHandlers")
	info := reg.Info()
	want := map[string]string{ // method+" "+path suffix -> manager method
		"GET /servers/{server}/users":               "Credentials",
		"POST /servers/{server}/users":              "AddCredential",
		"GET /servers/{server}/users/{username}":    "GetCredential",
		"PATCH /servers/{server}/users/{username}":  "UpdateCredential",
		"DELETE /servers/{server}/users/{username}": "DeleteCredential",
		"POST /servers/{server}/reload-users":       "LoadFromFile",
	}
	methodName := map[string]string{"MethodGet": "GET", "MethodPost": "POST", "MethodPatch": "PATCH", "MethodDelete": "DELETE", "MethodPut": "PUT"}
	seen := map[string]bool{}
	for _, cs := range reg.AllCalls() {
		if objOf(info, cs.Call.Fun) != reg.ParamObj(0) || len(cs.Call.Args) != 3 {
			continue
		}
		m := ""
		if sel, ok := ast.Unparen(cs.Call.Args[0]).(*ast.SelectorExpr); ok {
			m = methodName[sel.Sel.Name]
		}
		pv, ok := constOf(info, cs.Call.Args[1])
		if !ok || m == "" {
			r.Fail(rule, "api/ssm.RegisterHandlers:registration", cs.Pos(), "undecided: method or path is not a constant")
			continue
		}
		key := m + " " + constStr(pv)
		wantOp, isUserEndpoint := want[key]
		if !isUserEndpoint {
			continue
		}
		seen[key] = true
		// handler: sm.requireServerUsers(h) → h
		var h *types.Func
		if c, ok := ast.Unparen(cs.Call.Args[2]).(*ast.CallExpr); ok && len(c.Args) == 1 {
			h, _ = objOf(info, c.Args[0]).(*types.Func)
			if fn := Callee(info, c); fn == nil || fn.Name() != "requireServerUsers" {
				r.Fail(rule, "api/ssm:"+key+":guard", cs.Pos(), "user endpoint is not wrapped by requireServerUsers (nil credential manager would be dereferenced)")
			}
		}
		hc := p.CtxOfObj(h)
		if hc == nil {
			r.Fail(rule, "api/ssm:"+key, cs.Pos(), "undecided: cannot resolve the handler function")
			continue
		}
		ops := hc.CallsTo(func(fn *types.Func) bool {
			return namedTypeName(recvTypeOf(fn)) == "ManagedServer" && namedTypePkg(recvTypeOf(fn)) == mp("cred")
		})
		okOp := len(ops) == 1 && ops[0].Fn.Name() == wantOp
		got := ""
		for _, o := range ops {
			got += o.Fn.Name() + " "
		}
		r.Check(okOp, rule, "api/ssm:"+key, cs.Pos(), "handler "+h.Name()+" calls ManagedServer."+wantOp, "handler "+h.Name()+" calls ["+got+"], expected exactly ManagedServer."+wantOp)
		if okOp && (wantOp == "GetCredential" || wantOp == "UpdateCredential" || wantOp == "DeleteCredential") {
			arg := hc.Resolve(ops[0].Call.Args[0])
			_, c, isPV := methodCall(hc.Info(), arg, "net/http", "Request", "PathValue")
			good := false
			if isPV {
				if v, ok := constOf(hc.Info(), c.Args[0]); ok && constStr(v) == "username" {
					good = true
				}
			}
			r.Check(good, rule, "api/ssm:"+key+":username-from-path", ops[0].Pos(), "user name argument is r.PathValue(\"username\")", "the user the operation is applied to is not the one named in the request path")
		}
	}
	for k := range want {
		if !seen[k] {
			r.Fail(rule, "api/ssm:"+k, "", "endpoint is not registered")
		}
	}
	r.Floor(rule, 9)
}

func constStr(v interface{ ExactString() string }) string {
	s := v.ExactString()
	if len(s) >= 2 && s[0] == '"' {
		var out string
		fmt.Sscanf(s, "%q", &out)
		return out
	}
	return s
}

// c08R8: the cache and the live maps are changed by the same operations on the same keys. A key
// is identified by its value, not its spelling: `uc.uPSKHash` before and after `uc.uPSKHash = …`
// are different keys. An expression's identity is its access path plus the set of writes to that
// path (in the function) that can reach the point of evaluation; a local with a single
// definition stands for its defining expression at its definition; a callback handed to the live
// stores evaluates its captured variables when it is called.
func c08R8(p *Prog, r *Report) {
	const rule = "C08-R8"
	r.Rule(rule, "mirror agreement: in every ManagedServer method that hands a callback to the live stores, the callback's operations on its map argument (delete k / store k→v) are exactly the method's operations on cachedUserLookupMap, with keys equal as values (same access path reached by the same writes) and the same stored value")
	pkg := p.Pkg("cred")
	ulmField := "cachedUserLookupMap"
	n := 0
	p.AllFuncs(pkg, func(fc *FuncCtx) {
		recv := fc.RecvObj()
		if recv == nil || namedTypeName(recv.Type()) != "ManagedServer" {
			return
		}
		info := fc.Info()
		// callbacks passed (directly or through a local) to a live-store updater
		for _, cs := range fc.AllCalls() {
			if cs.Fn == nil || len(cs.Call.Args) != 1 {
				continue
			}
			lit, ok := ast.Unparen(fc.Resolve(cs.Call.Args[0])).(*ast.FuncLit)
			if !ok || lit.Type.Params == nil || len(lit.Type.Params.List) != 1 {
				continue
			}
			if _, isMap := info.TypeOf(lit.Type.Params.List[0].Type).Underlying().(*types.Map); !isMap {
				continue
			}
			lc := p.LitCtx(fc, lit)
			mapParam := lc.ParamObj(0)
			type op struct{ kind, key, val string }
			var live, cache []op
			collect := func(c *FuncCtx, isTarget func(e ast.Expr) bool, at func(v int) int, out *[]op) {
				for _, v := range c.G.V {
					if v.Node == nil {
						continue
					}
					if as, ok := v.Node.(*ast.AssignStmt); ok && v.Kind == VStmt {
						for i, l := range as.Lhs {
							if ix, ok := ast.Unparen(l).(*ast.IndexExpr); ok && isTarget(ix.X) && i < len(as.Rhs) {
								*out = append(*out, op{"store", c08ValueID(fc, c, ix.Index, at(v.ID)), c08ValueID(fc, c, as.Rhs[i], at(v.ID))})
							}
						}
					}
					for _, c2 := range c.AllCalls() {
						if c2.V != v.ID {
							continue
						}
						if id, ok := ast.Unparen(c2.Call.Fun).(*ast.Ident); ok && id.Name == "delete" && len(c2.Call.Args) == 2 && isTarget(c2.Call.Args[0]) {
							*out = append(*out, op{"delete", c08ValueID(fc, c, c2.Call.Args[1], at(v.ID)), ""})
						}
					}
				}
			}
			collect(lc, func(e ast.Expr) bool { return objOf(info, e) == mapParam && mapParam != nil }, func(int) int { return cs.V }, &live)
			collect(fc, func(e ast.Expr) bool {
				root, path, ok := pathOf(info, e)
				return ok && root == recv && path == "."+ulmField
			}, func(v int) int { return v }, &cache)
			key := func(ops []op) string {
				var ss []string
				for _, o := range ops {
					ss = append(ss, o.kind+" "+o.key+" "+o.val)
				}
				sort.Strings(ss)
				return strings.Join(ss, "; ")
			}
			n++
			r.Check(len(live) > 0 && key(live) == key(cache), rule, fc.Name+":live-mirrors-cache", cs.Pos(), "live maps and cache receive the same operations: "+key(cache),
				"the callback applied to the live stores does not perform the operations the method performs on its cache — live: ["+key(live)+"], cache: ["+key(cache)+"] (an expression written the same but evaluated after the field was overwritten is a different key): the accepted key set and the listed credentials drift apart")
		}
	})
	r.Count("mirrored_updates", n)
	r.Floor(rule, 3)
}

// c08ValueID identifies the value of e evaluated at vertex `at` of the method fc (c is the
// context e occurs in: fc itself or a callback literal of it).
func c08ValueID(fc, c *FuncCtx, e ast.Expr, at int) string {
	info := fc.Info()
	e = ast.Unparen(e)
	// a local with one definition stands for its defining expression at its definition
	if id, ok := e.(*ast.Ident); ok {
		if obj := objOf(info, id); obj != nil {
			for _, ctx := range []*FuncCtx{c, fc} {
				if rhs, idx, dv, ok := ctx.SoleDefRHS(obj); ok && idx < 0 {
					if ctx == fc {
						return c08ValueID(fc, fc, rhs, dv)
					}
					return c08ValueID(fc, c, rhs, at)
				}
			}
			return fmt.Sprintf("%s#%d", id.Name, obj.Pos())
		}
	}
	root, path, ok := pathOf(info, e)
	if !ok || path == "" {
		return exprStr(e)
	}
	// writes to this path in the method that reach the evaluation point
	var writes []int
	for _, v := range fc.G.V {
		if as, ok := v.Node.(*ast.AssignStmt); ok && v.Kind == VStmt {
			for _, l := range as.Lhs {
				if r2, p2, ok2 := pathOf(info, l); ok2 && r2 == root && p2 == path {
					writes = append(writes, v.ID)
				}
			}
		}
	}
	isW := map[int]bool{}
	for _, w := range writes {
		isW[w] = true
	}
	var reaching []string
	if fc.G.Reach([]int{fc.G.Entry}, func(v *Vertex) bool { return isW[v.ID] }, nil)[at] || at == fc.G.Entry {
		reaching = append(reaching, "entry")
	}
	for _, w := range writes {
		if w != at && fc.G.ReachAfter(w, func(v *Vertex) bool { return isW[v.ID] }, nil)[at] {
			reaching = append(reaching, fmt.Sprint("w", w))
		}
	}
	sort.Strings(reaching)
	return fmt.Sprintf("%s%s@{%s}", root.Name(), path, strings.Join(reaching, ","))
}

// c08R9: check and insert are one critical section. Every store of an element into one of the
// manager's credential maps is preceded, with the manager's mutex held without interruption, by
// a lookup in that same map (the "user exists" / "key already in use" test): a lookup made in an
// earlier critical section proves nothing about the map at the time of the store, and two
// concurrent calls both pass it.
func c08R9(p *Prog, r *Report) {
	const rule = "C08-R9"
	r.Rule(rule, "check-then-insert atomicity: in every ManagedServer method, a store m[k] = v into cachedCredMap or cachedUserLookupMap is dominated by a read of the same map from which the store is reachable without passing any Unlock/RUnlock of the manager's mutex")
	pkg := p.Pkg("cred")
	n := 0
	p.AllFuncs(pkg, func(fc *FuncCtx) {
		recv := fc.RecvObj()
		if recv == nil || namedTypeName(recv.Type()) != "ManagedServer" {
			return
		}
		info := fc.Info()
		var unlocks []int
		for _, cs := range fc.AllCalls() {
			op, mu := mutexOp(info, cs.Call)
			if (op == opUnlock || op == opRUnlock) && mu != nil {
				if root, _, ok := pathOf(info, mu); ok && root == recv {
					unlocks = append(unlocks, cs.V)
				}
			}
		}
		isMap := func(e ast.Expr) string {
			root, path, ok := pathOf(info, e)
			if !ok || root != recv {
				return ""
			}
			if path == ".cachedCredMap" || path == ".cachedUserLookupMap" {
				return path[1:]
			}
			return ""
		}
		for _, v := range fc.G.V {
			as, ok := v.Node.(*ast.AssignStmt)
			if !ok || v.Kind != VStmt {
				continue
			}
			for _, l := range as.Lhs {
				ix, ok := ast.Unparen(l).(*ast.IndexExpr)
				if !ok {
					continue
				}
				m := isMap(ix.X)
				if m == "" {
					continue
				}
				n++
				// reads of the same map that dominate the store
				good := false
				for _, u := range fc.G.V {
					if u.Node == nil || u.ID == v.ID || !fc.G.Dominates([]int{u.ID}, v.ID) {
						continue
					}
					reads := false
					inspectNoLit(u.Node, func(x ast.Node) bool {
						if ix2, ok := x.(*ast.IndexExpr); ok && isMap(ix2.X) == m {
							// not the left-hand side of a store
							isStore := false
							if as2, ok := u.Node.(*ast.AssignStmt); ok {
								for _, l2 := range as2.Lhs {
									if ast.Unparen(l2) == ast.Expr(ix2) {
										isStore = true
									}
								}
							}
							if !isStore {
								reads = true
							}
						}
						return true
					})
					if !reads {
						continue
					}
					interrupted := false
					after := fc.G.ReachAfter(u.ID, nil, nil)
					for _, ul := range unlocks {
						if after[ul] && fc.G.ReachAfter(ul, nil, nil)[v.ID] {
							interrupted = true
						}
					}
					if !interrupted {
						good = true
					}
				}
				r.Check(good, rule, fmt.Sprintf("%s:store-into-%s", fc.Name, m), p.posStr(as.Pos()), "the store follows a lookup in "+m+" made in the same critical section", "the element is stored into "+m+" without a lookup of that map in the same critical section (the mutex is released between the check and the store, or there is no check): two concurrent calls both pass the check, and the cache, the live maps and the listing disagree about the user or the key")
			}
		}
	})
	r.Count("credential_map_element_stores", n)
	r.Floor(rule, 3)
}

// c08R10: the "file unchanged, skip the reload" short-cut compares with what the file holds.
func c08R10(p *Prog, r *Report) {
	const rule = "C08-R10"
	r.Rule(rule, "the reload short-cut tells the truth: when LoadFromFile skips a file whose content equals a remembered string, that string is refreshed by every operation that changes what the file holds or what the manager holds — the save path stores the bytes it wrote on every path from the successful write to its success return, and a completed load stores the content it parsed — so that a file restored to an earlier state is loaded again")
	pkg := p.Pkg("cred")
	var memo *types.Var
	var loader *FuncCtx
	var cmpVar types.Object
	p.AllFuncs(pkg, func(fc *FuncCtx) {
		if namedTypeName(recvNamed(fc)) != "ManagedServer" {
			return
		}
		info := fc.Info()
		for _, v := range fc.G.V {
			x, y, op, ok := condParts(v)
			if !ok || y == nil || (op != token.EQL && op != token.NEQ) {
				continue
			}
			for _, pair := range [][2]ast.Expr{{x, y}, {y, x}} {
				sel, isSel := ast.Unparen(pair[0]).(*ast.SelectorExpr)
				if !isSel || objOf(info, sel.X) != fc.RecvObj() {
					continue
				}
				f, _ := info.Uses[sel.Sel].(*types.Var)
				if f == nil || !f.IsField() {
					continue
				}
				if b, isB := f.Type().Underlying().(*types.Basic); !isB || b.Kind() != types.String {
					continue
				}
				o := objOf(info, pair[1])
				if o == nil {
					continue
				}
				// the equal edge ends the function without an error and without touching the maps
				lab := LTrue
				if op == token.NEQ {
					lab = LFalse
				}
				for _, e := range v.Succs {
					if e.Label != lab {
						continue
					}
					reach := fc.G.Reach([]int{e.To}, nil, nil)
					quiet := true
					for _, fa := range fc.FieldAccesses(mp("cred"), "ManagedServer", map[string]bool{"cachedCredMap": true, "cachedUserLookupMap": true}) {
						if fa.Write && reach[fa.V] {
							quiet = false
						}
					}
					if quiet {
						memo, loader, cmpVar = f, fc, o
					}
				}
			}
		}
	})
	if memo == nil {
		r.OK(rule, "cred.(*ManagedServer):no-short-cut", "cred/manager.go", "no reload short-cut on remembered content: every reload parses the file")
		r.Floor(rule, 1)
		return
	}
	// the loader stores the content it compared, past the point where the new maps are installed
	// (helpers expanded: the store may sit in the helper that installs the maps)
	loader = p.Inlined(loader)
	nLoad := 0
	for _, fa := range loader.FieldAccesses(mp("cred"), "ManagedServer", map[string]bool{memo.Name(): true}) {
		if !fa.Write {
			continue
		}
		nLoad++
		as, _ := loader.G.V[fa.V].Node.(*ast.AssignStmt)
		uses := false
		if as != nil {
			for _, rhs := range as.Rhs {
				ast.Inspect(rhs, func(n ast.Node) bool {
					if id, ok := n.(*ast.Ident); ok && loader.Info().Uses[id] == cmpVar {
						uses = true
					}
					return true
				})
			}
		}
		r.Check(uses, rule, loader.Name+":remembers-what-it-loaded", p.posStr(fa.Sel.Pos()), "the remembered content is the content just parsed", "the loader remembers something other than the content it parsed")
	}
	r.Check(nLoad > 0, rule, loader.Name+":remembers", p.posStr(loader.Body.Pos()), "a completed load refreshes the remembered content", "a completed load does not refresh the remembered content")
	// every function of the package that replaces the store file refreshes it too
	nSave := 0
	p.AllFuncs(pkg, func(fc *FuncCtx) {
		if namedTypeName(recvNamed(fc)) != "ManagedServer" {
			return
		}
		fc = p.Inlined(fc)
		info := fc.Info()
		for _, cs := range fc.AllCalls() {
			if cs.Fn == nil {
				continue
			}
			callee := p.CtxOfObj(cs.Fn)
			isWrite := osFn(cs.Fn, "Rename") || osFn(cs.Fn, "WriteFile")
			if callee != nil && callee.Pkg == fc.Pkg && callee.Body != nil && namedTypeName(recvNamed(callee)) != "ManagedServer" {
				for _, c2 := range callee.AllCalls() {
					if c2.Fn != nil && osFn(c2.Fn, "Rename") {
						isWrite = true
					}
				}
			}
			if !isWrite {
				continue
			}
			nSave++
			// data argument: the []byte handed to the write
			var data types.Object
			for _, a := range cs.Call.Args {
				if t := info.TypeOf(a); t != nil {
					if sl, ok := t.Underlying().(*types.Slice); ok {
						if b, ok := sl.Elem().Underlying().(*types.Basic); ok && b.Kind() == types.Byte {
							data = objOf(info, a)
						}
					}
				}
			}
			stores := map[int]bool{}
			fromData := true
			for _, fa := range fc.FieldAccesses(mp("cred"), "ManagedServer", map[string]bool{memo.Name(): true}) {
				if !fa.Write {
					continue
				}
				stores[fa.V] = true
				// judged with the write whose success edge leads here (several saves may have
				// been expanded into one caller)
				if !cs.SuccessGuards(fa.V) && len(cs.ResultEdges(-1, WantNil)) > 0 {
					continue
				}
				uses := false
				if as, ok := fc.G.V[fa.V].Node.(*ast.AssignStmt); ok {
					// the remembered value mentions the written buffer — directly, or through locals
					// with a single definition — and at the point where it is taken from the buffer,
					// the buffer is the one that is written (same reaching definitions as at the
					// write): a string view taken before a later append misses the appended bytes
					sameBuf := func(at int) bool {
						a, b := fc.ReachingDefs(at, data), fc.ReachingDefs(cs.V, data)
						if len(a) != len(b) {
							return false
						}
						in := map[int]bool{}
						for _, d := range a {
							in[d] = true
						}
						for _, d := range b {
							if !in[d] {
								return false
							}
						}
						return true
					}
					var visit func(e ast.Expr, at int, depth int)
					visit = func(e ast.Expr, at int, depth int) {
						ast.Inspect(e, func(n ast.Node) bool {
							id, ok := n.(*ast.Ident)
							if !ok || data == nil {
								return true
							}
							o := info.Uses[id]
							if o == data {
								if sameBuf(at) {
									uses = true
								}
								return true
							}
							if o != nil && depth < 4 {
								if rhs, _, dv, sole := fc.SoleDefRHS(o); sole {
									if _, isVar := o.(*types.Var); isVar && !o.(*types.Var).IsField() {
										visit(rhs, dv, depth+1)
									}
								}
							}
							return true
						})
					}
					for _, rhs := range as.Rhs {
						visit(rhs, fa.V, 0)
					}
				}
				if !uses {
					fromData = false
				}
			}
			bad := ""
			okEdges := cs.ResultEdges(-1, WantNil)
			if len(okEdges) == 0 {
				// `return write(...)`: the success of the write is the function's success, nothing follows it
				bad = "the result of the write is returned as it is: nothing is remembered after a successful write"
				if len(stores) > 0 {
					bad = ""
				}
			}
			for _, e := range okEdges {
				reach := fc.G.Reach([]int{e.To}, func(v *Vertex) bool { return stores[v.ID] }, nil)
				for _, ret := range fc.ExitPreds() {
					if reach[ret] && fc.ErrAtReturn(ret) != ErrNonNil {
						bad = "a successful write can reach " + p.posStr(fc.G.V[ret].Node.Pos()) + " without refreshing " + memo.Name()
					}
				}
			}
			if bad == "" && len(stores) == 0 {
				bad = memo.Name() + " is never refreshed after the write"
			}
			if bad == "" && !fromData {
				bad = memo.Name() + " is refreshed from something other than the bytes written"
			}
			r.Check(bad == "", rule, fc.Name+":remembers-what-it-wrote", cs.Pos(), "every success path past the write stores the written bytes as the remembered content", bad+": after a save the remembered content is that of the last load, so a reload of a file restored to that earlier state is skipped — revoked users keep working and the listing disagrees with the file")
		}
	})
	r.Check(nSave > 0, rule, "cred.(*ManagedServer):store-writers", "cred/manager.go", fmt.Sprintf("%d functions replace the store file", nSave), "no function replacing the store file was found")
	r.Floor(rule, 3)
}

// recvNamed: the receiver type of the declared function fc belongs to (nil for plain functions).
func recvNamed(fc *FuncCtx) types.Type {
	for fc.Parent != nil {
		fc = fc.Parent
	}
	if fc.Obj == nil {
		return nil
	}
	return recvTypeOf(fc.Obj)
}

// c08BothStores: see the call site in c08R2.
func c08BothStores(p *Prog, r *Report, rule string, fc *FuncCtx) {
	info := fc.Info()
	recv := fc.RecvObj()
	mutOf := map[string][]int{} // store field -> vertices of mutation calls on it
	any := false
	for _, cs := range fc.AllCalls() {
		if cs.Fn == nil || namedTypeName(recvTypeOf(cs.Fn)) != "CredStore" || (cs.Fn.Name() != "UpdateUserLookupMap" && cs.Fn.Name() != "ReplaceUserLookupMap") {
			continue
		}
		sel, ok := ast.Unparen(cs.Call.Fun).(*ast.SelectorExpr)
		if !ok {
			continue
		}
		if fs, ok := ast.Unparen(sel.X).(*ast.SelectorExpr); ok && objOf(info, fs.X) == recv {
			mutOf[fs.Sel.Name] = append(mutOf[fs.Sel.Name], cs.V)
			any = true
		}
	}
	if !any {
		return
	}
	// the manager's store fields: fields whose type is *ss2022.CredStore
	st, _ := recv.Type().Underlying().(*types.Pointer)
	if st == nil {
		return
	}
	strct, _ := st.Elem().Underlying().(*types.Struct)
	if strct == nil {
		return
	}
	for i := 0; i < strct.NumFields(); i++ {
		f := strct.Field(i)
		if namedTypeName(f.Type()) != "CredStore" {
			continue
		}
		isMut := map[int]bool{}
		for _, v := range mutOf[f.Name()] {
			isMut[v] = true
		}
		nilE := map[Edge]bool{}
		for _, e := range fc.TestEdges(func(e ast.Expr) bool {
			s2, ok := ast.Unparen(e).(*ast.SelectorExpr)
			return ok && s2.Sel.Name == f.Name() && objOf(info, s2.X) == recv
		}, WantNil) {
			nilE[e] = true
		}
		// paths that change some other store without having handled this one …
		avoid := fc.G.Reach([]int{fc.G.Entry}, func(v *Vertex) bool { return isMut[v.ID] }, func(e Edge) bool { return nilE[e] })
		around := fc.G.newSet()
		for of, vs := range mutOf {
			if of == f.Name() {
				continue
			}
			for _, m := range vs {
				if !avoid[m] {
					continue
				}
				// … and can then end without handling it either
				rest := fc.G.ReachAfter(m, func(v *Vertex) bool { return isMut[v.ID] }, func(e Edge) bool { return nilE[e] })
				if rest[fc.G.Exit] {
					around[fc.G.Exit] = true
				}
			}
		}
		if len(mutOf) == 1 && len(mutOf[f.Name()]) == 0 {
			// the function changes one store and never mentions this one
			around[fc.G.Exit] = true
		}
		r.Check(!around[fc.G.Exit], rule, fc.Name+":mutates-store:"+f.Name(), p.posStr(fc.Body.Pos()), "every path mutates the "+f.Name()+" store or finds it nil", "a path through "+fc.Name+" changes one live store and leaves the "+f.Name()+" store (non-nil) unchanged: on servers with both transports a key added, rotated or deleted through the API is honoured by one transport only")
	}
}

// erasedErrorRequests (C08-R12, C02-R7): a handshake handler that turns a failure into a successful
// request (the unauthenticated-connection fallback of the SS2022 stream server) must hand out a
// request that carries nothing of the failed handshake: by the time the error is erased, every field
// of the request that any other part of the function may have set — the user name found through the
// identity header before the header failed to open, a parsed address, a payload — has been
// overwritten in the same block, by a whole-value assignment or field by field.
func erasedErrorRequests(p *Prog, r *Report, rule string) int {
	r.Rule(rule, "a failure turned into a fallback request carries nothing of the failed handshake: in every function of package ss2022 with a netio.ConnRequest result, each assignment of nil to the error result (in the function or its closures) is dominated, within its context, by a whole-value assignment of the request or by an assignment of every request field that the function assigns anywhere — in particular Username, which is set as soon as the identity header names a user, before the request header is authenticated")
	pkg := p.Pkg("ss2022")
	n := 0
	p.AllFuncs(pkg, func(top *FuncCtx) {
		if top.Decl == nil || top.Decl.Type.Results == nil {
			return
		}
		info := top.Info()
		var reqObj, errObj types.Object
		for _, f := range top.Decl.Type.Results.List {
			for _, nm := range f.Names {
				o := info.Defs[nm]
				if o == nil {
					continue
				}
				if namedTypeName(o.Type()) == "ConnRequest" {
					reqObj = o
				}
				if o.Type().String() == "error" {
					errObj = o
				}
			}
		}
		if reqObj == nil || errObj == nil {
			return
		}
		ctxs := allCtxs(p, top)
		// fields assigned anywhere
		fields := map[string]bool{}
		fieldOf := func(l ast.Expr) string {
			sel, ok := ast.Unparen(l).(*ast.SelectorExpr)
			if ok && objOf(info, sel.X) == reqObj {
				return sel.Sel.Name
			}
			return ""
		}
		for _, fc := range ctxs {
			for _, v := range fc.G.V {
				if as, ok := v.Node.(*ast.AssignStmt); ok && v.Kind == VStmt {
					for _, l := range as.Lhs {
						if f := fieldOf(l); f != "" {
							fields[f] = true
						}
					}
				}
			}
		}
		for _, fc := range ctxs {
			for _, v := range fc.G.V {
				as, ok := v.Node.(*ast.AssignStmt)
				if !ok || v.Kind != VStmt || len(as.Lhs) != len(as.Rhs) {
					continue
				}
				erases := false
				for i, l := range as.Lhs {
					if objOf(info, l) == errObj && isNilExpr(info, as.Rhs[i]) {
						erases = true
					}
				}
				if !erases {
					continue
				}
				n++
				var whole []int
				byField := map[string][]int{}
				for _, u := range fc.G.V {
					ua, ok := u.Node.(*ast.AssignStmt)
					if !ok || u.Kind != VStmt {
						continue
					}
					for _, l := range ua.Lhs {
						if objOf(info, l) == reqObj && len(ua.Lhs) == len(ua.Rhs) {
							whole = append(whole, u.ID)
						}
						if f := fieldOf(l); f != "" {
							byField[f] = append(byField[f], u.ID)
						}
					}
				}
				var missing []string
				for f := range fields {
					if !fc.G.Dominates(append(append([]int{}, whole...), byField[f]...), v.ID) {
						missing = append(missing, f)
					}
				}
				sort.Strings(missing)
				r.Check(len(missing) == 0, rule, fmt.Sprintf("%s:erased-error-request-is-fresh", top.Name), p.posStr(as.Pos()), "the request handed out with the erased error is assigned as a whole (or every field the function ever sets is overwritten) before the error is erased",
					"the error is erased and the request returned as a success, but field(s) "+strings.Join(missing, ", ")+" of the request are not overwritten on every path to this point: a connection that failed authentication after the identity header named a user is handed to the fallback under that user's name (and charged to it), or carries a half-parsed address or payload")
			}
		}
	})
	r.Count("erased_error_sites", n)
	r.Floor(rule, 1)
	return n
}

// c08R13: a load that reports success has put the credential maps in place. LoadFromFile has a
// short-cut for unchanged content; the cached content starts out as the empty string, so an empty
// store file looks "unchanged" on the very first load. If the short-cut can return success before any
// map exists, the server is registered with nil maps and the first AddCredential — an API request —
// panics on a nil-map store while holding the mutex (every later credential operation then blocks).
func c08R13(p *Prog, r *Report) {
	const rule = "C08-R13"
	r.Rule(rule, "success of LoadFromFile means the maps exist: every return of LoadFromFile that may carry a nil error is dominated, for each map-typed field of ManagedServer that the credential operations store into, by an assignment of that field in this call, or lies behind the non-nil edge of a test of one of those fields (the unchanged-content short-cut is taken only once something was loaded), or the field is given a non-nil value wherever a ManagedServer is constructed")
	fc := p.Inlined(p.Func("cred", "ManagedServer", "LoadFromFile"))
	info := fc.Info()
	recv := fc.RecvObj()
	pkg := p.Pkg("cred")
	// map fields of the receiver type that some method stores into by index
	mapFields := map[string]bool{}
	p.AllFuncs(pkg, func(m *FuncCtx) {
		mr := m.RecvObj()
		if mr == nil || namedTypeName(derefType(mr.Type())) != "ManagedServer" {
			return
		}
		for _, c := range allCtxs(p, m) {
			for _, v := range c.G.V {
				as, ok := v.Node.(*ast.AssignStmt)
				if !ok || v.Kind != VStmt {
					continue
				}
				for _, l := range as.Lhs {
					ix, isIx := ast.Unparen(l).(*ast.IndexExpr)
					if !isIx {
						continue
					}
					root, path, okp := pathOf(c.Info(), ix.X)
					if okp && root == mr && path != "" {
						if _, isMap := c.Info().TypeOf(ix.X).Underlying().(*types.Map); isMap {
							mapFields[strings.TrimPrefix(path, ".")] = true
						}
					}
				}
			}
		}
	})
	// fields made non-nil at every construction
	alwaysMade := map[string]bool{}
	for f := range mapFields {
		alwaysMade[f] = true
	}
	nBuilt := 0
	p.AllFuncs(pkg, func(top *FuncCtx) {
		for _, c := range allCtxs(p, top) {
			for _, bv := range builtValues(c, "ManagedServer") {
				nBuilt++
				for f := range mapFields {
					val, has := bv.Fields[f]
					if !has || isNilExpr(c.Info(), val) {
						alwaysMade[f] = false
					}
				}
			}
		}
	})
	if nBuilt == 0 {
		for f := range alwaysMade {
			alwaysMade[f] = false
		}
	}
	var nonNil []Edge
	for f := range mapFields {
		fld := f
		nonNil = append(nonNil, fc.TestEdges(func(e ast.Expr) bool {
			root, path, okp := pathOf(info, e)
			return okp && root == recv && path == "."+fld
		}, WantNonNil)...)
	}
	// ... or of a local flag whose only definition is such a comparison (loaded := s.m != nil)
	for _, v := range fc.G.V {
		if v.Kind != VCond {
			continue
		}
		o := objOf(info, v.Node.(ast.Expr))
		if o == nil {
			continue
		}
		rhs, _, _, sole := fc.SoleDefRHS(o)
		if !sole {
			continue
		}
		be, isBin := ast.Unparen(rhs).(*ast.BinaryExpr)
		if !isBin || (be.Op != token.NEQ && be.Op != token.EQL) {
			continue
		}
		var side ast.Expr
		if isNilExpr(info, be.Y) {
			side = be.X
		} else if isNilExpr(info, be.X) {
			side = be.Y
		}
		if side == nil {
			continue
		}
		root, path, okp := pathOf(info, side)
		if !okp || root != recv || !mapFields[strings.TrimPrefix(path, ".")] {
			continue
		}
		for _, e := range v.Succs {
			if (be.Op == token.NEQ && e.Label == LTrue) || (be.Op == token.EQL && e.Label == LFalse) {
				nonNil = append(nonNil, e)
			}
		}
	}
	stores := map[string][]int{}
	for _, v := range fc.G.V {
		as, ok := v.Node.(*ast.AssignStmt)
		if !ok || v.Kind != VStmt {
			continue
		}
		for i, l := range as.Lhs {
			root, path, okp := pathOf(info, l)
			if okp && root == recv && mapFields[strings.TrimPrefix(path, ".")] {
				if len(as.Rhs) == len(as.Lhs) && isNilExpr(info, as.Rhs[i]) {
					continue
				}
				stores[strings.TrimPrefix(path, ".")] = append(stores[strings.TrimPrefix(path, ".")], v.ID)
			}
		}
	}
	n := 0
	for _, ret := range fc.Returns() {
		if fc.ErrAtReturn(ret) == ErrNonNil {
			continue
		}
		var missing []string
		for f := range mapFields {
			if alwaysMade[f] || fc.G.Dominates(stores[f], ret) && len(stores[f]) > 0 || len(nonNil) > 0 && fc.G.EdgeDominates(nonNil, ret) {
				continue
			}
			missing = append(missing, f)
		}
		sort.Strings(missing)
		n++
		r.Check(len(missing) == 0, rule, fmt.Sprintf("cred.(*ManagedServer).LoadFromFile:success-return#%d-has-maps", n), p.posStr(fc.G.V[ret].Node.Pos()), "the maps were assigned in this call, or were already in place",
			"LoadFromFile can report success here without "+strings.Join(missing, ", ")+" ever having been created (the unchanged-content short-cut matches an empty store file on the first load, because the cached content starts as the empty string): the server is registered with nil maps and the first AddCredential panics on a nil-map store while holding the mutex")
	}
	r.Check(len(mapFields) >= 2, rule, "cred.(*ManagedServer):credential-maps-found", p.posStr(fc.Body.Pos()), "the credential maps were found", fmt.Sprintf("only %d map fields of ManagedServer with element stores found", len(mapFields)))
	r.Floor(rule, 2)
}

// c08R14: the store file is read inside the critical section that compares it with what the last
// save wrote. saveToFile replaces the file (rename) and records its content under the mutex; a reload
// that opened the file BEFORE taking the mutex can hold the previous inode: it then finds that content
// different from the recorded one, parses it and replaces the cache and the live maps with the OLD set —
// an acknowledged API change disappears from the running server, and the next save writes the old set
// back over it.
func c08R14(p *Prog, r *Report) {
	const rule = "C08-R14"
	r.Rule(rule, "the store is read under the lock that orders it against saves: in LoadFromFile (helpers expanded) every call that is given the store's path (a read of the file) executes with ManagedServer.mu write-held, the same critical section in which the content is compared with cachedContent and the maps are replaced")
	fc := p.Inlined(p.Func("cred", "ManagedServer", "LoadFromFile"))
	info := fc.Info()
	recv := fc.RecvObj()
	states := fc.LockStates(fmt.Sprintf("%p.mu", recv), LUnlocked)
	n := 0
	for _, cs := range fc.AllCalls() {
		usesPath := false
		for _, a := range cs.Call.Args {
			root, path, okp := pathOf(info, fc.Resolve(a))
			if okp && root == recv && path == ".path" {
				usesPath = true
			}
		}
		if !usesPath {
			continue
		}
		n++
		r.Check(states[cs.V] == LWrite, rule, "cred.(*ManagedServer).LoadFromFile:store-read-under-lock:"+roleOf(fc, cs.Call), cs.Pos(), "the file is opened with the mutex write-held",
			"LoadFromFile opens the store file ("+exprStr(cs.Call)+") without holding the mutex: a save that renames a new file into place between this open and the Lock makes the reload parse the previous file, find it different from the content the save recorded, and replace the cache and the live maps with the old user set — the acknowledged change is lost from the running server and overwritten by the next save")
	}
	r.Check(n >= 1, rule, "cred.(*ManagedServer).LoadFromFile:reads-store", p.posStr(fc.Body.Pos()), "the read of the store file was found", "no call taking the store path found in LoadFromFile")
	r.Floor(rule, 2)
}
