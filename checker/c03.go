package main

import (
	"fmt"
	"go/ast"
	"go/constant"
	"go/token"
	"go/types"
	"math"
	"sort"
)

func init() {
	register(&PropCheck{ID: "C03", Pkgs: []string{"./ss2022"}, Run: runC03})
}

// tsWindow is the acceptance window of the timestamp predicate relative to the timestamp ts,
// extracted from the source: the set of server instants `now` (ns, relative to ts) that pass.
type tsWindow struct {
	Form      string // "whole-seconds" or "duration"
	LoNs      int64  // accepted now-ts >= LoNs (inclusive) ...
	HiNs      int64  // ... and now-ts < HiNs (HiIncl false) or <= HiNs (HiIncl true)
	LoIncl    bool
	HiIncl    bool
	Desc      string
	WidthNs   int64 // sup of (t - t0) over two accepted instants
	Attained  bool  // whether the sup is attained
	Extracted string
}

// cmpPoint is an abstract number c + k*eps used to evaluate comparison chains exactly.
type cmpPoint struct {
	c   int64
	eps int // -1, 0, +1
}

func (p cmpPoint) cmp(k int64) int {
	if p.c < k {
		return -1
	}
	if p.c > k {
		return 1
	}
	return p.eps
}

func evalCmp(op token.Token, c int) bool {
	switch op {
	case token.LSS:
		return c < 0
	case token.LEQ:
		return c <= 0
	case token.GTR:
		return c > 0
	case token.GEQ:
		return c >= 0
	case token.EQL:
		return c == 0
	case token.NEQ:
		return c != 0
	}
	return false
}

func flipOp(op token.Token) token.Token {
	switch op {
	case token.LSS:
		return token.GTR
	case token.LEQ:
		return token.GEQ
	case token.GTR:
		return token.LSS
	case token.GEQ:
		return token.LEQ
	}
	return op
}

// extractTimestampWindow analyses ValidateUnixEpochTimestamp(b, now).
func extractTimestampWindow(p *Prog) (w tsWindow, fc *FuncCtx, err error) {
	fc = p.Func("ss2022", "", "ValidateUnixEpochTimestamp")
	info := fc.Info()
	g := fc.G
	bParam, nowParam := fc.ParamObj(0), fc.ParamObj(1)
	if bParam == nil || nowParam == nil {
		return w, fc, fmt.Errorf("expected parameters (b []byte, now time.Time)")
	}
	// 1. every condition must be a comparison of one variable D with a constant
	type cmpv struct {
		v  int
		op token.Token
		k  int64
	}
	var D types.Object
	conds := map[int]cmpv{}
	for _, v := range g.V {
		if v.Kind == VSwitchCase {
			return w, fc, fmt.Errorf("unrecognised idiom: switch in timestamp predicate")
		}
		if v.Kind != VCond {
			continue
		}
		be, ok := ast.Unparen(v.Node.(ast.Expr)).(*ast.BinaryExpr)
		if !ok {
			return w, fc, fmt.Errorf("unrecognised condition %q", exprStr(v.Node))
		}
		op := be.Op
		x, y := be.X, be.Y
		kx, xConst := constInt(info, x)
		ky, yConst := constInt(info, y)
		var varSide ast.Expr
		var k int64
		switch {
		case yConst && !xConst:
			varSide, k = x, ky
		case xConst && !yConst:
			varSide, k, op = y, kx, flipOp(op)
		default:
			return w, fc, fmt.Errorf("condition %q is not variable-vs-constant", exprStr(be))
		}
		o := objOf(info, varSide)
		if o == nil {
			return w, fc, fmt.Errorf("condition %q: left side is not a variable", exprStr(be))
		}
		if D == nil {
			D = o
		} else if D != o {
			return w, fc, fmt.Errorf("conditions test different variables (%s, %s)", D.Name(), o.Name())
		}
		conds[v.ID] = cmpv{v.ID, op, k}
	}
	if D == nil {
		return w, fc, fmt.Errorf("no comparison found: every timestamp would be accepted")
	}
	// 2. evaluate the decision graph on every boundary point
	var ks []int64
	for _, c := range conds {
		ks = append(ks, c.k)
	}
	sort.Slice(ks, func(i, j int) bool { return ks[i] < ks[j] })
	var pts []cmpPoint
	pts = append(pts, cmpPoint{math.MinInt64 / 2, 0})
	for _, k := range ks {
		pts = append(pts, cmpPoint{k, -1}, cmpPoint{k, 0}, cmpPoint{k, 1})
	}
	pts = append(pts, cmpPoint{math.MaxInt64 / 2, 0})
	accepts := func(pt cmpPoint) (bool, error) {
		v := g.Entry
		for steps := 0; steps < 10000; steps++ {
			vx := g.V[v]
			if v == g.Exit {
				return false, fmt.Errorf("fell off the function")
			}
			if v == g.Panic {
				return false, nil
			}
			if vx.Kind == VCond {
				c := conds[v]
				lab := LFalse
				if evalCmp(c.op, pt.cmp(c.k)) {
					lab = LTrue
				}
				for _, e := range vx.Succs {
					if e.Label == lab {
						v = e.To
					}
				}
				continue
			}
			if rs, ok := vx.Node.(*ast.ReturnStmt); ok && vx.Kind == VStmt {
				switch fc.ErrAtReturn(v) {
				case ErrNil:
					return true, nil
				case ErrNonNil:
					return false, nil
				}
				return false, fmt.Errorf("cannot classify %q as nil / non-nil error", exprStr(rs))
			}
			if len(vx.Succs) != 1 {
				return false, fmt.Errorf("unexpected control flow at %q", exprStr(vx.Node))
			}
			v = vx.Succs[0].To
		}
		return false, fmt.Errorf("loop in timestamp predicate")
	}
	first, last := -1, -1
	for i, pt := range pts {
		ok, e := accepts(pt)
		if e != nil {
			return w, fc, e
		}
		if ok {
			if first < 0 {
				first = i
			}
			if last >= 0 && last != i-1 {
				return w, fc, fmt.Errorf("accepted set of %s is not one interval", D.Name())
			}
			last = i
		}
	}
	if first < 0 {
		return w, fc, fmt.Errorf("no value of %s is accepted", D.Name())
	}
	if first == 0 || last == len(pts)-1 {
		return w, fc, fmt.Errorf("accepted set of %s is unbounded: timestamps arbitrarily far from the clock pass", D.Name())
	}
	lo, hi := pts[first], pts[last] // accepted D in [lo, hi] over points; eps=+1 at lo means open, eps=0 closed
	// D integer-valued bounds: lo.eps==0 -> D>=lo.c ; lo.eps==+1 -> D>lo.c ; (eps -1 at lo would mean accepted just below c: same as >= c-δ: not possible for an interval starting at a boundary unless closed below) treat generally:
	dLo, dLoIncl := lo.c, lo.eps == 0
	if lo.eps < 0 {
		return w, fc, fmt.Errorf("internal: interval starts below a boundary")
	}
	dHi, dHiIncl := hi.c, hi.eps == 0
	if hi.eps > 0 {
		return w, fc, fmt.Errorf("internal: interval ends above a boundary")
	}
	// 3. what is D?
	rhs, idx, _, ok := fc.SoleDefRHS(D)
	if !ok || idx >= 0 {
		return w, fc, fmt.Errorf("%s is not defined by a single expression", D.Name())
	}
	isTS := func(e ast.Expr) bool { // int64(binary.BigEndian.Uint64(b[...]))
		e = fc.Resolve(e)
		c, ok := e.(*ast.CallExpr)
		if !ok || len(c.Args) != 1 {
			return false
		}
		fn := Callee(info, c)
		if fn == nil || fn.Name() != "Uint64" || fn.Pkg() == nil || fn.Pkg().Path() != "encoding/binary" {
			return false
		}
		return usesObj(info, c.Args[0], bParam, false)
	}
	isNowUnix := func(e ast.Expr) bool { // now.Unix()
		e = fc.Resolve(e)
		recv, _, ok := methodCall(info, e, "time", "Time", "Unix")
		return ok && objOf(info, fc.Resolve(recv)) == nowParam
	}
	isTSTime := func(e ast.Expr) bool { // time.Unix(ts, 0)
		e = fc.Resolve(e)
		c, ok := funcCall(info, e, "time", "Unix")
		if !ok || len(c.Args) != 2 {
			return false
		}
		z, isC := constInt(info, c.Args[1])
		return isC && z == 0 && isTS(c.Args[0])
	}
	isNow := func(e ast.Expr) bool { return objOf(info, fc.Resolve(e)) == nowParam }
	rhs = fc.Resolve(rhs)
	orient := 0 // +1: D = ts - now ; -1: D = now - ts
	form := ""
	if be, ok := rhs.(*ast.BinaryExpr); ok && be.Op == token.SUB {
		switch {
		case isTS(be.X) && isNowUnix(be.Y):
			orient, form = +1, "whole-seconds"
		case isNowUnix(be.X) && isTS(be.Y):
			orient, form = -1, "whole-seconds"
		}
	} else if recv, c, ok := methodCall(info, rhs, "time", "Time", "Sub"); ok && len(c.Args) == 1 {
		switch {
		case isNow(recv) && isTSTime(c.Args[0]):
			orient, form = -1, "duration"
		case isTSTime(recv) && isNow(c.Args[0]):
			orient, form = +1, "duration"
		}
	}
	if orient == 0 {
		return w, fc, fmt.Errorf("cannot relate %s = %s to the packet timestamp and the `now` parameter (recognised: ts - now.Unix(), now.Unix() - ts, now.Sub(time.Unix(ts,0)), time.Unix(ts,0).Sub(now))", D.Name(), exprStr(rhs))
	}
	w.Form = form
	w.Extracted = fmt.Sprintf("%s := %s; accepted iff %s %s %d and %s %s %d", D.Name(), exprStr(rhs), D.Name(), map[bool]string{true: ">=", false: ">"}[dLoIncl], dLo, D.Name(), map[bool]string{true: "<=", false: "<"}[dHiIncl], dHi)
	const sec = int64(1e9)
	if form == "whole-seconds" {
		// normalise to inclusive integer bounds
		if !dLoIncl {
			dLo++
		}
		if !dHiIncl {
			dHi--
		}
		if dLo > dHi {
			return w, fc, fmt.Errorf("empty acceptance window")
		}
		// D = orient*(ts - floor(now)) in [dLo, dHi]
		var fLo, fHi int64 // floor(now) - ts in [fLo, fHi]
		if orient > 0 {
			fLo, fHi = -dHi, -dLo
		} else {
			fLo, fHi = dLo, dHi
		}
		w.LoNs, w.LoIncl = fLo*sec, true
		w.HiNs, w.HiIncl = (fHi+1)*sec, false
		w.WidthNs = (fHi - fLo + 1) * sec
		w.Attained = false
	} else {
		var nLo, nHi int64
		var nLoIncl, nHiIncl bool
		if orient < 0 {
			nLo, nHi, nLoIncl, nHiIncl = dLo, dHi, dLoIncl, dHiIncl
		} else {
			nLo, nHi, nLoIncl, nHiIncl = -dHi, -dLo, dHiIncl, dLoIncl
		}
		w.LoNs, w.LoIncl, w.HiNs, w.HiIncl = nLo, nLoIncl, nHi, nHiIncl
		w.WidthNs = nHi - nLo
		w.Attained = nLoIncl && nHiIncl
		if nLo > nHi {
			return w, fc, fmt.Errorf("empty acceptance window")
		}
	}
	w.Desc = fmt.Sprintf("now - ts in %s%s, %s%s", map[bool]string{true: "[", false: "("}[w.LoIncl], durStr(w.LoNs), durStr(w.HiNs), map[bool]string{true: "]", false: ")"}[w.HiIncl])
	return w, fc, nil
}

func durStr(ns int64) string {
	if ns%1e9 == 0 {
		return fmt.Sprintf("%ds", ns/1e9)
	}
	return fmt.Sprintf("%dns", ns)
}

// retention describes how long an inserted salt stays in the pool.
type retention struct {
	Ns        int64
	PresentAt bool // whether the salt is still present at exactly t0 + Ns
	Desc      string
}

// extractRetention analyses SaltPool.insert and SaltPool.pruneExpired.
func extractRetention(p *Prog, r *Report) (ret retention, err error) {
	ins := p.Func("ss2022", "SaltPool", "insert")
	info := ins.Info()
	nowParam := ins.ParamObj(0)
	// expiresAt: now.Add(K)
	found := 0
	for _, v := range ins.G.V {
		if v.Node == nil {
			continue
		}
		inspectNoLit(v.Node, func(n ast.Node) bool {
			kv, ok := n.(*ast.KeyValueExpr)
			if ok {
				if id, isId := kv.Key.(*ast.Ident); isId && id.Name == "expiresAt" {
					found++
					recv, c, isAdd := methodCall(info, ins.Resolve(kv.Value), "time", "Time", "Add")
					if !isAdd || objOf(info, ins.Resolve(recv)) != nowParam {
						err = fmt.Errorf("expiresAt is %q, expected <now parameter>.Add(<constant>)", exprStr(kv.Value))
						return false
					}
					k, isConst := constInt(info, c.Args[0])
					if !isConst {
						err = fmt.Errorf("retention %q is not a constant", exprStr(c.Args[0]))
						return false
					}
					ret.Ns = k
				}
			}
			if as, ok := n.(*ast.AssignStmt); ok {
				for i, l := range as.Lhs {
					if sel, isSel := ast.Unparen(l).(*ast.SelectorExpr); isSel && sel.Sel.Name == "expiresAt" && len(as.Rhs) == len(as.Lhs) {
						found++
						recv, c, isAdd := methodCall(info, ins.Resolve(as.Rhs[i]), "time", "Time", "Add")
						if !isAdd || objOf(info, ins.Resolve(recv)) != nowParam {
							err = fmt.Errorf("expiresAt is %q, expected <now parameter>.Add(<constant>)", exprStr(as.Rhs[i]))
							return false
						}
						k, isConst := constInt(info, c.Args[0])
						if !isConst {
							err = fmt.Errorf("retention %q is not a constant", exprStr(c.Args[0]))
							return false
						}
						ret.Ns = k
					}
				}
			}
			return true
		})
	}
	if err != nil {
		return
	}
	if found != 1 {
		return ret, fmt.Errorf("expected exactly one assignment of saltNode.expiresAt in insert, found %d", found)
	}
	// pruneExpired: each condition comparing <node>.expiresAt with the now parameter decides "keep"
	pr := p.Func("ss2022", "SaltPool", "pruneExpired")
	pinfo := pr.Info()
	pnow := pr.ParamObj(0)
	var deletes []int
	for _, cs := range pr.AllCalls() {
		if id, ok := ast.Unparen(cs.Call.Fun).(*ast.Ident); ok {
			if b, ok := pinfo.Uses[id].(*types.Builtin); ok && b.Name() == "delete" {
				deletes = append(deletes, cs.V)
			}
		}
	}
	if len(deletes) == 0 {
		return ret, fmt.Errorf("pruneExpired deletes nothing")
	}
	isExp := func(e ast.Expr) bool {
		sel, ok := ast.Unparen(e).(*ast.SelectorExpr)
		return ok && sel.Sel.Name == "expiresAt"
	}
	isNow := func(e ast.Expr) bool { return objOf(pinfo, pr.Resolve(e)) == pnow }
	nconds := 0
	strictSeen, nonStrictSeen := false, false
	for _, v := range pr.G.V {
		if v.Kind != VCond {
			continue
		}
		e := ast.Unparen(v.Node.(ast.Expr))
		// relation "kept" label and strictness: kept iff expiresAt > now (strict) or >= now
		keepLabel, strict, recognised := -1, false, false
		if recv, c, ok := methodCall(pinfo, e, "time", "Time", "After"); ok {
			if isExp(recv) && isNow(c.Args[0]) { // expiresAt.After(now): true => kept, strict
				keepLabel, strict, recognised = LTrue, true, true
			} else if isNow(recv) && isExp(c.Args[0]) { // now.After(expiresAt): true => expired; kept iff now <= exp
				keepLabel, strict, recognised = LFalse, false, true
			}
		} else if recv, c, ok := methodCall(pinfo, e, "time", "Time", "Before"); ok {
			if isExp(recv) && isNow(c.Args[0]) { // expiresAt.Before(now): true => expired; kept iff exp >= now
				keepLabel, strict, recognised = LFalse, false, true
			} else if isNow(recv) && isExp(c.Args[0]) { // now.Before(exp): kept, strict
				keepLabel, strict, recognised = LTrue, true, true
			}
		}
		if !recognised {
			if usesTimeCompare(pinfo, e) {
				return ret, fmt.Errorf("unrecognised expiry comparison %q in pruneExpired", exprStr(e))
			}
			continue
		}
		nconds++
		if strict {
			strictSeen = true
		} else {
			nonStrictSeen = true
		}
		// on the keep edge no delete may be reachable; on the other edge a delete must be reachable
		for _, ed := range v.Succs {
			reach := pr.G.Reach([]int{ed.To}, nil, nil)
			anyDel := false
			for _, d := range deletes {
				if reach[d] {
					anyDel = true
				}
			}
			if ed.Label == keepLabel && anyDel {
				return ret, fmt.Errorf("pruneExpired: after finding an unexpired node (%q, keep edge) a delete is still reachable", exprStr(e))
			}
			if ed.Label != keepLabel && !anyDel {
				return ret, fmt.Errorf("pruneExpired: expired edge of %q never deletes", exprStr(e))
			}
		}
	}
	if nconds == 0 {
		return ret, fmt.Errorf("pruneExpired has no recognisable expiry comparison")
	}
	// every delete must be guarded: dominated by an "expired" edge of some comparison — checked via: entry→delete impossible when all expired edges are removed
	var expiredEdges []Edge
	for _, v := range pr.G.V {
		if v.Kind != VCond {
			continue
		}
		e := ast.Unparen(v.Node.(ast.Expr))
		if !usesTimeCompare(pinfo, e) {
			continue
		}
		for _, ed := range v.Succs {
			reach := pr.G.Reach([]int{ed.To}, nil, nil)
			for _, d := range deletes {
				if reach[d] {
					expiredEdges = append(expiredEdges, ed)
					break
				}
			}
		}
	}
	for _, d := range deletes {
		if !pr.G.EdgeDominates(expiredEdges, d) {
			return ret, fmt.Errorf("pruneExpired: delete at %s is reachable without passing an expiry comparison", p.posStr(pr.G.V[d].Node.Pos()))
		}
	}
	if strictSeen && nonStrictSeen {
		// conservative: a node may be removed as soon as one comparison says so → present only under the strict reading
		ret.PresentAt = false
	} else {
		ret.PresentAt = nonStrictSeen
	}
	ret.Desc = fmt.Sprintf("salt inserted at t0 is present at t iff t %s t0 + %s", map[bool]string{true: "<=", false: "<"}[ret.PresentAt], durStr(ret.Ns))
	return ret, nil
}

func usesTimeCompare(info *types.Info, e ast.Expr) bool {
	found := false
	ast.Inspect(e, func(n ast.Node) bool {
		if c, ok := n.(*ast.CallExpr); ok {
			fn := Callee(info, c)
			if fn != nil && fn.Pkg() != nil && fn.Pkg().Path() == "time" {
				switch fn.Name() {
				case "After", "Before", "Compare", "Equal", "Sub", "Since", "Until":
					found = true
				}
			}
		}
		return true
	})
	return found
}

func runC03(p *Prog, r *Report) {
	p.KeepCalls = map[string]bool{"ss2022.SaltPool.insert": true, "ss2022.SaltPool.pruneExpired": true}
	r.Explanation = "Structural necessary conditions of 'a handshake is accepted at most once while its timestamp is acceptable', decided on the type-checked source of package ss2022: (R1) the acceptance window extracted from the timestamp predicate is covered by the salt retention extracted from the pool; (R2) the pool is modified only by authenticated, timestamp-validated requests, with the one clock reading used for both; (R3) check-and-insert is one write-locked critical section and every pool field access is under the pool lock."
	r.NotDecided = []string{"behaviour against a real clock (no clock is run)", "list/map consistency of the pool beyond locking and the prune guard", "cryptographic authentication strength"}
	r.Assumptions = []string{"time.Time.Add/After/Before/Unix and sync.RWMutex behave as documented", "HandleStream is the only server entry that consults the pool (checked by who-may-call within the loaded packages)"}
	c03R1(p, r)
	c03R2(p, r)
	c03R3(p, r)
}

func c03R1(p *Prog, r *Report) {
	const rule = "C03-R1"
	r.Rule(rule, "salt retention covers the whole timestamp acceptance window: for any two instants t0<t at which one timestamp passes ValidateUnixEpochTimestamp, the salt inserted at t0 is still present at t (constant relation extracted from ValidateUnixEpochTimestamp, SaltPool.insert, SaltPool.pruneExpired)")
	w, fc, err := extractTimestampWindow(p)
	pos := p.posStr(fc.Body.Pos())
	if err != nil {
		r.Fail(rule, "ss2022.ValidateUnixEpochTimestamp:extract", pos, "undecided: "+err.Error())
		return
	}
	r.OK(rule, "ss2022.ValidateUnixEpochTimestamp:extract", pos, w.Extracted+" => "+w.Desc)
	ret, err := extractRetention(p, r)
	if err != nil {
		r.Fail(rule, "ss2022.SaltPool:retention", "", "undecided: "+err.Error())
		return
	}
	r.OK(rule, "ss2022.SaltPool:retention", "", ret.Desc)
	// window must be covered
	covered := false
	switch {
	case ret.PresentAt:
		covered = w.WidthNs <= ret.Ns
	case w.Attained:
		covered = w.WidthNs < ret.Ns
	default:
		covered = w.WidthNs <= ret.Ns
	}
	detail := fmt.Sprintf("acceptance window: %s (sup of t-t0 = %s, %s); %s", w.Desc, durStr(w.WidthNs), map[bool]string{true: "attained", false: "not attained"}[w.Attained], ret.Desc)
	r.Check(covered, rule, "ss2022.ValidateUnixEpochTimestamp~SaltPool:window<=retention", pos, detail,
		detail+fmt.Sprintf(" => a request first accepted at t0 with now-ts = %s is accepted again at any t in [t0+%s, ts+%s) once another accepted request has pruned the pool", durStr(w.LoNs), durStr(ret.Ns), durStr(w.HiNs)))
	// "only if within 30 seconds": no accepted instant differs from ts by a whole-second reading of more than MaxEpochDiff
	maxDiff := int64(30)
	if c := fc.Pkg.Types.Scope().Lookup("MaxEpochDiff"); c != nil {
		if cc, ok := c.(*types.Const); ok {
			if v, ok := constant.Int64Val(constant.ToInt(cc.Val())); ok {
				maxDiff = v
			}
		}
	}
	r.Check(maxDiff == 30, rule, "ss2022.MaxEpochDiff==30", "", "MaxEpochDiff folds to 30", fmt.Sprintf("MaxEpochDiff folds to %d, the protocol and the property say 30 seconds", maxDiff))
	lim := (maxDiff + 1) * 1e9
	within := w.LoNs > -lim && w.HiNs <= lim && (w.HiNs < lim || !w.HiIncl)
	r.Check(within, rule, "ss2022.ValidateUnixEpochTimestamp:within-30s", pos,
		"every accepted instant has |now-ts| < 31s (30 s at the timestamp's whole-second granularity)",
		"accepted window "+w.Desc+" admits timestamps more than 30 s (whole seconds) from the clock")
	// each parser hands its own `now` and a slice of its buffer to the predicate and propagates the error
	for _, name := range []string{"ParseTCPRequestFixedLengthHeader", "ParseTCPResponseHeader", "ParseUDPClientMessageHeader", "ParseUDPServerMessageHeader"} {
		pf := p.Inlined(p.Func("ss2022", "", name))
		calls := pf.CallsTo(isFn(mp("ss2022"), "", "ValidateUnixEpochTimestamp"))
		if len(calls) != 1 {
			r.Fail(rule, "ss2022."+name+":validates-timestamp", p.posStr(pf.Body.Pos()), fmt.Sprintf("expected exactly one call of ValidateUnixEpochTimestamp, found %d", len(calls)))
			continue
		}
		cs := calls[0]
		nowOK := false
		for i := 0; ; i++ {
			po := pf.ParamObj(i)
			if po == nil {
				break
			}
			if namedTypeName(po.Type()) == "Time" && objOf(pf.Info(), pf.Resolve(cs.Call.Args[1])) == po {
				nowOK = true
			}
		}
		// success return must be guarded by the call's success
		guarded := true
		nSucc := 0
		for _, ret := range pf.Returns() {
			if pf.ErrAtReturn(ret) == ErrNonNil {
				continue
			}
			if ret == cs.V {
				continue
			}
			nSucc++
			if !cs.SuccessGuards(ret) {
				guarded = false
			}
		}
		r.Check(nowOK && guarded && nSucc > 0, rule, "ss2022."+name+":validates-timestamp", cs.Pos(),
			"passes its own now parameter; every possibly-successful return is reached only on the predicate's err == nil edge",
			fmt.Sprintf("now passed through=%v, success returns guarded by the predicate=%v (%d success returns)", nowOK, guarded, nSucc))
	}
}

func c03R2(p *Prog, r *Report) {
	const rule = "C03-R2"
	r.Rule(rule, "in StreamServer.HandleStream the salt pool is modified only by SaltPool.Add, reached only after the AEAD open and the fixed-header parse (timestamp) succeeded, with the same clock reading passed to the parser and to Add; a refused Add ends in an error; TryContains has no side effect")
	hs := p.Func("ss2022", "StreamServer", "HandleStream")
	info := hs.Info()
	// all method calls on the saltPool field
	var adds, trys, others []CallSite
	for _, cs := range hs.AllCalls() {
		if cs.Fn == nil {
			continue
		}
		sig := cs.Fn.Type().(*types.Signature)
		if sig.Recv() == nil || namedTypeName(sig.Recv().Type()) != "SaltPool" {
			continue
		}
		switch cs.Fn.Name() {
		case "Add":
			adds = append(adds, cs)
		case "TryContains", "Contains":
			trys = append(trys, cs)
		default:
			others = append(others, cs)
		}
	}
	for _, lit := range hs.Lits() {
		lc := p.LitCtx(hs, lit)
		for _, cs := range lc.AllCalls() {
			if cs.Fn != nil {
				if sig := cs.Fn.Type().(*types.Signature); sig.Recv() != nil && namedTypeName(sig.Recv().Type()) == "SaltPool" {
					others = append(others, cs)
				}
			}
		}
	}
	for _, cs := range others {
		r.Fail(rule, "ss2022.(*StreamServer).HandleStream:pool-call:"+cs.Fn.Name(), cs.Pos(), "unexpected salt pool operation "+cs.Fn.Name()+" in the handshake path")
	}
	if len(adds) != 1 {
		r.Fail(rule, "ss2022.(*StreamServer).HandleStream:Add", "", fmt.Sprintf("expected exactly one SaltPool.Add call, found %d", len(adds)))
		return
	}
	add := adds[0]
	// dominance by decrypt + parse success
	decs := hs.CallsTo(func(fn *types.Func) bool {
		return funcIs(fn, mp("ss2022"), "ShadowStreamCipher", "DecryptTo") || funcIs(fn, mp("ss2022"), "ShadowStreamCipher", "DecryptInPlace") || funcIs(fn, mp("ss2022"), "ShadowStreamCipher", "DecryptAppend")
	})
	parses := hs.CallsTo(isFn(mp("ss2022"), "", "ParseTCPRequestFixedLengthHeader"))
	okDec := false
	for _, d := range decs {
		if d.SuccessGuards(add.V) {
			okDec = true
		}
	}
	r.Check(okDec, rule, "ss2022.(*StreamServer).HandleStream:Add-after-AEAD-open", add.Pos(),
		"SaltPool.Add is reachable only on the err == nil edge of an AEAD open", "SaltPool.Add is reachable without a successful AEAD open of the fixed-length header: unauthenticated bytes can fill the pool")
	var parse *CallSite
	for i := range parses {
		if parses[i].SuccessGuards(add.V) {
			parse = &parses[i]
		}
	}
	r.Check(parse != nil, rule, "ss2022.(*StreamServer).HandleStream:Add-after-timestamp-check", add.Pos(),
		"SaltPool.Add is reachable only on the err == nil edge of ParseTCPRequestFixedLengthHeader", "SaltPool.Add is reachable without the fixed-length header (type, timestamp) having been validated")
	// parse input is the plaintext of a guarding decrypt
	if parse != nil {
		src := objOf(info, ast.Unparen(parse.Call.Args[0]))
		good := false
		for _, d := range decs {
			if d.ResultVar(0) != nil && d.ResultVar(0) == src && hs.SoleDef(parse.V, src, d.V) && d.SuccessGuards(parse.V) {
				good = true
			}
		}
		r.Check(good, rule, "ss2022.(*StreamServer).HandleStream:parse-input-is-authenticated-plaintext", parse.Pos(),
			"the header handed to the parser is the plaintext returned by the AEAD open on its success edge", "the header handed to ParseTCPRequestFixedLengthHeader is not (only) the output of a successful AEAD open")
		// same now
		nowAdd := objOf(info, ast.Unparen(add.Call.Args[0]))
		nowParse := objOf(info, ast.Unparen(parse.Call.Args[1]))
		same := nowAdd != nil && nowAdd == nowParse
		single := false
		if same {
			rhs, _, defV, ok := hs.SoleDefRHS(nowAdd)
			if ok {
				if c, isCall := funcCall(info, rhs, "time", "Now"); isCall && c != nil {
					single = hs.G.Dominates([]int{defV}, parse.V)
				}
			}
		}
		if same && single {
			// freshness: no transport I/O between reading the clock and using it
			_, _, defV, _ := hs.SoleDefRHS(nowAdd)
			connParam := hs.ParamObj(0)
			after := hs.G.ReachAfter(defV, func(v *Vertex) bool { return v.ID == add.V }, nil)
			stale := ""
			for _, cs := range hs.AllCalls() {
				if !after[cs.V] || cs.V == defV {
					continue
				}
				// can it still reach Add?
				if !hs.G.Reach([]int{cs.V}, nil, nil)[add.V] {
					continue
				}
				if usesObj(info, cs.Call, connParam, false) {
					stale = exprStr(cs.Call) + " at " + cs.Pos()
				}
			}
			r.Check(stale == "", rule, "ss2022.(*StreamServer).HandleStream:now-read-after-last-transport-read", p.posStr(hs.G.V[defV].Node.Pos()),
				"no call involving the connection lies between reading the clock and SaltPool.Add",
				"the clock is read before a (blocking, deadline-less) transport operation "+stale+": the timestamp is validated and the salt inserted with a stale time, so a request on an idle connection is accepted outside its window and again after its salt expired")
		}
		r.Check(same && single, rule, "ss2022.(*StreamServer).HandleStream:same-now", add.Pos(),
			"the time validated by the parser and the time the salt is inserted with are one variable with a single time.Now() definition",
			"the timestamp is validated against one clock reading and the salt inserted with another (a gap between them shifts expiry relative to acceptance)")
	}
	// Add == false edge: only error returns, never the authenticated continuation
	falseEdges := add.ResultEdges(0, WantFalse)
	trueEdges := add.ResultEdges(0, WantTrue)
	if len(falseEdges) == 0 || len(trueEdges) == 0 {
		r.Fail(rule, "ss2022.(*StreamServer).HandleStream:Add-result-tested", add.Pos(), "the result of SaltPool.Add is not tested: a repeated salt would be accepted")
	} else {
		bad := ""
		for _, fe := range falseEdges {
			reach := hs.G.Reach([]int{fe.To}, nil, nil)
			for _, ret := range hs.ExitPreds() {
				if reach[ret] {
					if hs.ErrAtReturn(ret) != ErrNonNil {
						bad = "a refused Add reaches " + p.posStr(hs.G.V[ret].Node.Pos()) + " which may return a nil error"
					}
				}
			}
		}
		r.Check(bad == "", rule, "ss2022.(*StreamServer).HandleStream:refused-Add-is-error", add.Pos(), "every path from Add == false returns a non-nil error", bad)
		// the authenticated continuation (construction of the server conn) only on the true edge
		for _, cs := range hs.AllCalls() {
			if cs.Fn != nil && funcIs(cs.Fn, mp("netio"), "", "NopPendingConn") {
				r.Check(hs.GuardedBy(add.V, trueEdges, cs.V), rule, "ss2022.(*StreamServer).HandleStream:request-only-after-Add", cs.Pos(),
					"the connection request is built only on the Add == true edge", "the connection request can be built without SaltPool.Add having returned true")
			}
		}
	}
	// TryContains: no writes
	tc := p.Inlined(p.Func("ss2022", "SaltPool", "TryContains"))
	writes := 0
	for _, fa := range tc.FieldAccesses(mp("ss2022"), "SaltPool", nil) {
		if fa.Write {
			writes++
		}
	}
	for _, cs := range tc.AllCalls() {
		if cs.Fn != nil && cs.Fn.Pkg() != nil && cs.Fn.Pkg().Path() == mp("ss2022") {
			writes++
		}
	}
	r.Check(writes == 0, rule, "ss2022.(*SaltPool).TryContains:read-only", p.posStr(tc.Body.Pos()), "no field of the pool is written and no pool method is called", "TryContains modifies the pool: a request that later fails authentication leaves state behind")
	_ = trys
	// who-may-call: Add / insert / pruneExpired / Clear
	for _, pkg := range p.All {
		if pkg.Syntax == nil {
			continue
		}
		p.AllFuncs(pkg, func(fc *FuncCtx) {
			check := func(c *FuncCtx) {
				for _, cs := range c.AllCalls() {
					if cs.Fn == nil {
						continue
					}
					sig := cs.Fn.Type().(*types.Signature)
					if sig.Recv() == nil || namedTypeName(sig.Recv().Type()) != "SaltPool" || namedTypePkg(sig.Recv().Type()) != mp("ss2022") {
						continue
					}
					caller := fc.Name
					switch cs.Fn.Name() {
					case "insert", "pruneExpired":
						r.Check(fc.Obj != nil && funcIs(fc.Obj, mp("ss2022"), "SaltPool", "Add"), rule, "who-calls:SaltPool."+cs.Fn.Name()+":"+caller, cs.Pos(), "called from SaltPool.Add only", "SaltPool."+cs.Fn.Name()+" called outside SaltPool.Add (bypasses the check-and-insert critical section)")
					case "Add":
						r.Check(fc.Obj != nil && funcIs(fc.Obj, mp("ss2022"), "StreamServer", "HandleStream"), rule, "who-calls:SaltPool.Add:"+caller, cs.Pos(), "called from StreamServer.HandleStream only", "SaltPool.Add called from an unexpected place")
					case "Clear":
						r.Fail(rule, "who-calls:SaltPool.Clear:"+caller, cs.Pos(), "SaltPool.Clear is called in non-test code: clearing the pool re-opens every salt still inside its acceptance window")
					}
				}
			}
			check(fc)
			for _, lit := range fc.Lits() {
				check(p.LitCtx(fc, lit))
			}
		})
	}
	r.Floor(rule, 9)
}

func c03R3(p *Prog, r *Report) {
	const rule = "C03-R3"
	r.Rule(rule, "every access to SaltPool.nodeBySalt/head/tail holds SaltPool.mu (write lock for writes); in Add the prune, the membership test and the insert are inside one write-locked critical section; unexported helpers are only entered with the write lock held")
	pkg := p.Pkg("ss2022")
	fields := map[string]bool{"nodeBySalt": true, "head": true, "tail": true}
	n := 0
	poolHelpers := inferHelperLockStates(p, &guardSpec{PkgRel: "ss2022", OwnerType: "SaltPool", MuField: "mu"})
	p.AllFuncs(pkg, func(fc *FuncCtx) {
		acc := fc.FieldAccesses(mp("ss2022"), "SaltPool", fields)
		if len(acc) == 0 {
			return
		}
		recv := fc.RecvObj()
		isPoolMethod := fc.Obj != nil && recv != nil && namedTypeName(recv.Type()) == "SaltPool"
		// unexported pool methods inherit the weakest lock state found at their call sites
		entry := LUnlocked
		if isPoolMethod {
			if st, ok := poolHelpers[fc.Obj.Name()]; ok {
				entry = st
			}
		}
		var muKey string
		if isPoolMethod {
			muKey = fmt.Sprintf("%p.mu", recv)
		}
		states := fc.LockStates(muKey, entry)
		for _, a := range acc {
			n++
			st := states[a.V]
			construct := fmt.Sprintf("%s:%s.%s@%d", fc.Name, exprStr(a.Sel.X), a.Field.Name(), ordinalOf(acc, a))
			if !isPoolMethod {
				r.Fail(rule, construct, p.posStr(a.Sel.Pos()), "pool field accessed outside a SaltPool method")
				continue
			}
			ok := st == LWrite || (!a.Write && st == LRead)
			r.Check(ok, rule, construct, p.posStr(a.Sel.Pos()),
				fmt.Sprintf("%s under %s", map[bool]string{true: "write", false: "read"}[a.Write], st),
				fmt.Sprintf("%s of SaltPool.%s with lock state %s", map[bool]string{true: "write", false: "read"}[a.Write], a.Field.Name(), st))
		}
	})
	// Add: one critical section
	add := p.Inlined(p.Func("ss2022", "SaltPool", "Add"))
	recv := add.RecvObj()
	muKey := fmt.Sprintf("%p.mu", recv)
	states := add.LockStates(muKey, LUnlocked)
	var seq []CallSite
	for _, cs := range add.AllCalls() {
		if cs.Fn != nil && (funcIs(cs.Fn, mp("ss2022"), "SaltPool", "pruneExpired") || funcIs(cs.Fn, mp("ss2022"), "SaltPool", "insert")) {
			seq = append(seq, cs)
			r.Check(states[cs.V] == LWrite, rule, "ss2022.(*SaltPool).Add:"+cs.Fn.Name()+"-under-write-lock", cs.Pos(), "called with the write lock held", "called with lock state "+states[cs.V].String())
		}
	}
	// no unlock between first lock and exit except deferred
	unlockBetween := false
	for _, cs := range add.AllCalls() {
		op, mu := mutexOp(add.Info(), cs.Call)
		if (op == opUnlock || op == opRUnlock) && pathKey(add.Info(), mu) == muKey {
			if _, isDefer := add.G.V[cs.V].Node.(*ast.DeferStmt); !isDefer {
				// a non-deferred unlock is fine only if nothing pool-related follows it
				after := add.G.ReachAfter(cs.V, nil, nil)
				for _, s := range seq {
					if after[s.V] {
						unlockBetween = true
					}
				}
				for _, a := range add.FieldAccesses(mp("ss2022"), "SaltPool", fields) {
					if after[a.V] {
						unlockBetween = true
					}
				}
			}
		}
	}
	r.Check(!unlockBetween && len(seq) >= 2, rule, "ss2022.(*SaltPool).Add:one-critical-section", p.posStr(add.Body.Pos()),
		"prune, membership test and insert happen without releasing the write lock", "the lock is released between the membership test and the insert (or prune/insert are missing): two concurrent presentations can both be accepted")
	// insert must be reached only on the "not present" edge of the membership test
	for _, cs := range seq {
		if cs.Fn.Name() != "insert" {
			continue
		}
		// find `_, ok := p.nodeBySalt[salt]` tests
		guarded := false
		for _, v := range add.G.V {
			as, isAs := v.Node.(*ast.AssignStmt)
			if !isAs || v.Kind != VStmt || len(as.Rhs) != 1 || len(as.Lhs) != 2 {
				continue
			}
			ix, isIx := ast.Unparen(as.Rhs[0]).(*ast.IndexExpr)
			if !isIx {
				continue
			}
			if sel, isSel := ast.Unparen(ix.X).(*ast.SelectorExpr); !isSel || sel.Sel.Name != "nodeBySalt" {
				continue
			}
			if objOf(add.Info(), ix.Index) != add.ParamObj(1) {
				continue
			}
			okObj := objOf(add.Info(), as.Lhs[1])
			if okObj == nil {
				continue
			}
			var edges []Edge
			for _, e := range add.TestEdges(func(x ast.Expr) bool {
				// the test may be on a copy of the comma-ok result (a helper's return value)
				return objOf(add.Info(), x) == okObj || objOf(add.Info(), add.Resolve(x)) == okObj
			}, WantFalse) {
				if add.SoleDef(e.From, okObj, v.ID) {
					edges = append(edges, e)
				}
			}
			if add.GuardedBy(v.ID, edges, cs.V) {
				guarded = true
			}
			// the present edge must return false
		}
		r.Check(guarded, rule, "ss2022.(*SaltPool).Add:insert-only-if-absent", cs.Pos(), "insert is reached only on the not-present edge of the membership test of the same salt", "insert is reachable although the salt is already present (or the membership test is missing): Add would report a replay as new")
	}
	r.Count("saltpool_field_accesses", n)
	r.Floor(rule, 14)
}

func ordinalOf(acc []FieldAccess, a FieldAccess) int {
	k := 0
	for _, x := range acc {
		if x.Sel == a.Sel {
			return k
		}
		if x.Field == a.Field {
			k++
		}
	}
	return k
}
