package main

import (
	"fmt"
	"go/ast"
	"go/constant"
	"go/token"
	"go/types"
	"regexp"
	"sort"
	"strings"
)

func init() {
	register(&PropCheck{ID: "C18", Pkgs: []string{"./service", "./ss2022", "./router", "./dns", "./clientgroups", "./direct", "./api", "./conn", "./zerocopy"}, Run: runC18})
}

func runC18(p *Prog, r *Report) {
	r.Explanation = "Structural necessary conditions of 'configurations are rejected at load or run without invariant violations': the zero value, the empty string and the documented default of each policy field denote one function and the two string tables agree; every lookup of a configured name is tested and its miss edge returns an error, and every locally built name-indexed map is probed before insertion; for each numeric option an exact region analysis (one representative per interval between the constants it is compared with) shows that every accepted value lies in the documented range — batch sizes 1..1024, send channel capacity >= 64, MTU >= 1280 before any relay or UDP client is built, initial-payload sizes positive; PSK length is checked before any cipher configuration is derived; the NAT timeout is compared with the session server's minimum, which is the replay window constant and not smaller than the accepted timestamp window, and the default is not smaller either; configuration-derived addresses reach panicking accessors only past the matching predicate; the legacy single-listener fields expand to the same listener literal in Initialize and Migrate."
	r.NotDecided = []string{"that in-code defaults equal the README's numbers", "TLS, file-system and platform dependent validation", "behaviour of started services under traffic (see the per-protocol properties)", "options that are parsed but never consulted"}
	r.Assumptions = []string{"encoding/json leaves omitted fields at their zero value", "go/types constant folding"}
	c18R1(p, r)
	c18R2(p, r)
	c18R3(p, r)
	c18R4(p, r)
	c18R5(p, r)
	// R6: an accepted configuration may pair any server with any client and give them different
	// MTUs; the relay buffers for the pair are sized by zerocopy.UDPRelayHeadroom / MaxHeadroom from the
	// two codecs' declared headrooms. If those combinators mix up front and rear room, some accepted
	// pairs (a no-tag server relaying to an SS2022 client with a larger MTU) overrun the buffer — a
	// run-time invariant violation no load-time check could refuse. Same analysis as C05-R5.
	{
		sub := NewReport("C18", "quick")
		c05Combinators(p, sub)
		r.Rule("C18-R6", "relay buffer headroom for every accepted server/client pair: "+sub.RuleDocs["C05-R5"])
		for _, o := range sub.Obs {
			o.Rule = "C18-R6"
			r.Obs = append(r.Obs, o)
		}
		r.Floor("C18-R6", 2)
	}
}

// ---------------------------------------------------------------- R1

// switchTable extracts string-case → (assigned or returned function name) from the single
// switch in fc; "default" maps to "<error>" when it returns a non-nil error.
func c18SwitchTable(fc *FuncCtx) (map[string]string, bool) {
	info := fc.Info()
	tbl := map[string]string{}
	ok := false
	ast.Inspect(fc.Body, func(n ast.Node) bool {
		sw, isSw := n.(*ast.SwitchStmt)
		if !isSw || sw.Tag == nil {
			return true
		}
		ok = true
		for _, cl := range sw.Body.List {
			cc := cl.(*ast.CaseClause)
			val := ""
			for _, st := range cc.Body {
				switch s := st.(type) {
				case *ast.ReturnStmt:
					if len(s.Results) >= 1 {
						if id, isId := ast.Unparen(s.Results[0]).(*ast.Ident); isId {
							if _, isFn := info.Uses[id].(*types.Func); isFn {
								val = id.Name
							}
						}
						if val == "" && nonNilErrExpr(info, s.Results[len(s.Results)-1]) {
							val = "<error>"
						}
					}
				case *ast.AssignStmt:
					if len(s.Lhs) == 1 && len(s.Rhs) == 1 {
						if _, isStar := ast.Unparen(s.Lhs[0]).(*ast.StarExpr); isStar {
							if id, isId := ast.Unparen(s.Rhs[0]).(*ast.Ident); isId {
								if _, isFn := info.Uses[id].(*types.Func); isFn {
									val = id.Name
								}
							}
						}
					}
				}
			}
			if cc.List == nil {
				tbl["<default>"] = val
				continue
			}
			for _, e := range cc.List {
				if v, isC := constOf(info, e); isC && v.Kind() == constant.String {
					tbl[constant.StringVal(v)] = val
				} else {
					ok = false
				}
			}
		}
		return false
	})
	return tbl, ok
}

func tblStr(t map[string]string) string {
	var ks []string
	for k := range t {
		ks = append(ks, k)
	}
	sort.Strings(ks)
	var s []string
	for _, k := range ks {
		s = append(s, fmt.Sprintf("%q→%s", k, t[k]))
	}
	return strings.Join(s, " ")
}

func c18R1(p *Prog, r *Report) {
	const rule = "C18-R1"
	r.Rule(rule, "one default per policy field: for each *PolicyField the function Policy() returns for the zero value, the function the empty string parses to in Parse*Policy and in (*Policy).UnmarshalText, and the name Name() reports for the zero value all denote the same entry; the two string→function tables are identical, every name maps to the function of that name, and unknown names are errors")
	for _, kind := range []string{"Padding", "Reject"} {
		parse := p.Func("ss2022", "", "Parse"+kind+"Policy")
		unm := p.Func("ss2022", kind+"Policy", "UnmarshalText")
		pol := p.Func("ss2022", kind+"PolicyField", "Policy")
		nam := p.Func("ss2022", kind+"PolicyField", "Name")
		pt, ok1 := c18SwitchTable(parse)
		ut, ok2 := c18SwitchTable(unm)
		pre := "ss2022." + kind + "Policy"
		r.Check(ok1 && ok2 && tblStr(pt) == tblStr(ut), rule, pre+":tables-agree", p.posStr(parse.Body.Pos()), "Parse and UnmarshalText tables: "+tblStr(pt), "Parse"+kind+"Policy and UnmarshalText disagree: "+tblStr(pt)+" vs "+tblStr(ut)+": the same text configures different behaviour depending on the entry point")
		okNames := true
		for k, v := range pt {
			if k == "" || k == "<default>" {
				continue
			}
			if k != v {
				okNames = false
			}
		}
		r.Check(okNames && pt["<default>"] == "<error>", rule, pre+":names-are-functions", p.posStr(parse.Body.Pos()), "every name denotes the function of that name; unknown names are errors", "a policy name maps to a different function, or unknown names are accepted: "+tblStr(pt))
		// zero value
		zeroFn, zeroName := "", ""
		pinfo := pol.Info()
		for _, e := range pol.TestEdges(func(x ast.Expr) bool { return strings.HasSuffix(exprStr(x), ".policy") }, WantNil) {
			for _, ret := range pol.Returns() {
				if pol.G.EdgeDominates([]Edge{e}, ret) {
					if id, ok := ast.Unparen(pol.G.V[ret].Node.(*ast.ReturnStmt).Results[0]).(*ast.Ident); ok {
						if _, isFn := pinfo.Uses[id].(*types.Func); isFn {
							zeroFn = id.Name
						}
					}
				}
			}
		}
		ninfo := nam.Info()
		for _, cv := range nam.G.V {
			x, y, op, ok := condParts(cv)
			if !ok || y == nil || op != token.EQL || !strings.HasSuffix(exprStr(x), ".name") {
				continue
			}
			if v, isC := constOf(ninfo, y); !isC || v.Kind() != constant.String || constant.StringVal(v) != "" {
				continue
			}
			for _, e := range cv.Succs {
				if e.Label != LTrue {
					continue
				}
				for _, ret := range nam.Returns() {
					if nam.G.EdgeDominates([]Edge{e}, ret) {
						if v, isC := constOf(ninfo, nam.G.V[ret].Node.(*ast.ReturnStmt).Results[0]); isC {
							zeroName = constant.StringVal(v)
						}
					}
				}
			}
		}
		empty := pt[""]
		ok := zeroFn != "" && zeroFn == empty && zeroName == empty
		r.Check(ok, rule, pre+"Field:omitted-equals-empty", p.posStr(pol.Body.Pos()),
			fmt.Sprintf("omitted → %s (named %q), \"\" → %s", zeroFn, zeroName, empty),
			fmt.Sprintf("an omitted %sPolicy field behaves as %s (Name() %q) but an explicitly empty one as %s: omitted and empty differ, so one of them is not the documented default", strings.ToLower(kind), zeroFn, zeroName, empty))
		// the empty string shares its case with the default's name
		shared := false
		ast.Inspect(parse.Body, func(n ast.Node) bool {
			if cc, ok := n.(*ast.CaseClause); ok {
				hasEmpty, hasName := false, false
				for _, e := range cc.List {
					if v, isC := constOf(parse.Info(), e); isC && v.Kind() == constant.String {
						if constant.StringVal(v) == "" {
							hasEmpty = true
						}
						if constant.StringVal(v) == empty {
							hasName = true
						}
					}
				}
				if hasEmpty && hasName {
					shared = true
				}
			}
			return true
		})
		r.Check(shared, rule, pre+":empty-is-an-alias", p.posStr(parse.Body.Pos()), "\"\" is listed with "+empty, "the empty string is not an alias of a named policy")
		// the field's UnmarshalText delegates to the policy's and NewField to Parse
		fu := p.Func("ss2022", kind+"PolicyField", "UnmarshalText")
		deleg := false
		for _, cs := range fu.AllCalls() {
			if cs.Fn != nil && cs.Fn.Name() == "UnmarshalText" && strings.HasSuffix(exprStr(cs.Call.Fun), ".policy.UnmarshalText") {
				deleg = true
			}
		}
		r.Check(deleg, rule, pre+"Field.UnmarshalText:delegates", p.posStr(fu.Body.Pos()), "delegates to the policy's table", "the field's UnmarshalText does not use the policy's table")
	}
	// consumers use Policy(), not the raw field
	n := 0
	for _, rel := range []string{"service"} {
		pkg := p.Pkg(rel)
		p.AllFuncs(pkg, func(fc *FuncCtx) {
			for _, cs := range fc.AllCalls() {
				if cs.Fn != nil && cs.Fn.Name() == "Policy" && strings.HasSuffix(namedTypeName(recvTypeOf(cs.Fn)), "PolicyField") {
					n++
				}
			}
		})
	}
	r.Check(n >= 3, rule, "service:policies-read-through-Policy()", "service", fmt.Sprintf("%d uses", n), fmt.Sprintf("only %d uses of *PolicyField.Policy() in service: a policy option is not consulted", n))
	r.Floor(rule, 11)
}

// ---------------------------------------------------------------- R2

// c18ConfigFuncs: methods whose receiver type name ends in "Config" in the configuration packages.
func c18ConfigFuncs(p *Prog, fn func(rel string, fc *FuncCtx)) {
	for _, rel := range []string{"service", "router", "dns", "clientgroups", "api"} {
		pkg := p.Pkg(rel)
		if pkg == nil {
			continue
		}
		p.AllFuncs(pkg, func(fc *FuncCtx) {
			if fc.Decl == nil || fc.Decl.Recv == nil {
				return
			}
			if !strings.HasSuffix(recvTypeName(fc.Decl.Recv.List[0].Type), "Config") {
				return
			}
			fn(rel, fc)
		})
	}
}

func isStringKeyedMap(t types.Type) bool {
	m, ok := t.Underlying().(*types.Map)
	if !ok {
		return false
	}
	b, ok := m.Key().Underlying().(*types.Basic)
	return ok && b.Kind() == types.String
}

// errorOnlyFrom: every path from edge e to the function exit ends in a return of a non-nil error.
func errorOnlyFrom(fc *FuncCtx, e Edge) bool {
	reach := fc.G.Reach([]int{e.To}, nil, nil)
	any := false
	for _, ret := range fc.Returns() {
		if !reach[ret] {
			continue
		}
		any = true
		if fc.ErrAtReturn(ret) != ErrNonNil {
			return false
		}
	}
	return any
}

func c18R2(p *Prog, r *Report) {
	const rule = "C18-R2"
	r.Rule(rule, "every named reference is checked and names are unique: in the configuration-building methods every read of a string-keyed map is either a comma-ok lookup one of whose edges leads only to error returns (miss → error for references, hit → error for duplicate probes) or a single-value lookup whose result is nil-tested with the nil edge leading only to error returns before any successful return; every insertion under a configured name into a map made in the same function is dominated by the miss edge of a probe of a map with the same key expression")
	nLook, nIns := 0, 0
	c18ConfigFuncs(p, func(rel string, fc *FuncCtx) {
		info := fc.Info()
		pre := fc.Name
		for _, v := range fc.G.V {
			if v.Node == nil {
				continue
			}
			// writes
			var lhsIdx = map[*ast.IndexExpr]bool{}
			if as, ok := v.Node.(*ast.AssignStmt); ok {
				for _, l := range as.Lhs {
					if ix, ok := ast.Unparen(l).(*ast.IndexExpr); ok {
						lhsIdx[ix] = true
					}
				}
			}
			inspectNoLit(v.Node, func(n ast.Node) bool {
				ix, ok := n.(*ast.IndexExpr)
				if !ok {
					return true
				}
				t := info.TypeOf(ix.X)
				if t == nil || !isStringKeyedMap(t) {
					return true
				}
				keyStr := exprStr(ix.Index)
				mapObj := objOf(info, ix.X)
				if lhsIdx[ix] {
					// insertion: only maps made locally, keyed by a configured name
					if mapObj == nil {
						return true
					}
					rhs, _, _, okd := fc.SoleDefRHS(mapObj)
					if !okd || !strings.HasPrefix(exprStr(rhs), "make(") || !strings.HasSuffix(keyStr, ".Name") {
						return true
					}
					nIns++
					ok := false
					for _, pv := range fc.G.V {
						as, isAs := pv.Node.(*ast.AssignStmt)
						if !isAs || len(as.Lhs) != 2 || len(as.Rhs) != 1 {
							continue
						}
						pix, isIx := ast.Unparen(as.Rhs[0]).(*ast.IndexExpr)
						if !isIx || exprStr(pix.Index) != keyStr || !isStringKeyedMap(info.TypeOf(pix.X)) {
							continue
						}
						okObj := objOf(info, as.Lhs[1])
						for _, e := range fc.TestEdges(func(x ast.Expr) bool { return objOf(info, x) == okObj }, WantFalse) {
							if fc.SoleDef(e.From, okObj, pv.ID) && fc.G.EdgeDominates([]Edge{e}, v.ID) {
								// and the hit edge is an error
								for _, he := range fc.G.V[e.From].Succs {
									if he.Label != e.Label && errorOnlyFrom(fc, he) {
										ok = true
									}
								}
							}
						}
					}
					r.Check(ok, rule, pre+":unique:"+exprStr(ix), p.posStr(ix.Pos()), "inserted only past the miss edge of a duplicate probe", "entries are inserted into "+exprStr(ix.X)+" under "+keyStr+" without a duplicate check: a configuration with two entries of the same name is accepted and the later silently replaces the earlier")
					return true
				}
				// reads
				nLook++
				construct := pre + ":lookup:" + exprStr(ix)
				as, isAs := v.Node.(*ast.AssignStmt)
				if isAs && len(as.Lhs) == 2 && len(as.Rhs) == 1 && ast.Unparen(as.Rhs[0]) == ix {
					okObj := objOf(info, as.Lhs[1])
					ok := false
					for _, want := range []Want{WantTrue, WantFalse} {
						for _, e := range fc.TestEdges(func(x ast.Expr) bool { return objOf(info, x) == okObj }, want) {
							if fc.SoleDef(e.From, okObj, v.ID) && errorOnlyFrom(fc, e) {
								ok = true
							}
						}
					}
					r.Check(ok, rule, construct, p.posStr(ix.Pos()), "comma-ok lookup with an error-only edge", "the comma-ok result of looking up "+exprStr(ix)+" does not lead to an error on either edge: a dangling (or duplicate) name is accepted")
					return true
				}
				if isAs && len(as.Lhs) == 1 && len(as.Rhs) == 1 && ast.Unparen(as.Rhs[0]) == ix {
					lhs := as.Lhs[0]
					nilEdges := fc.TestEdges(func(x ast.Expr) bool { return samePathOrObj(fc, x, lhs) }, WantNil)
					nonNil := fc.TestEdges(func(x ast.Expr) bool { return samePathOrObj(fc, x, lhs) }, WantNonNil)
					ok := len(nilEdges) > 0
					for _, e := range nilEdges {
						if !errorOnlyFrom(fc, e) {
							ok = false
						}
					}
					// every successful return after the lookup passes the non-nil edge
					for _, ret := range fc.Returns() {
						if fc.ErrAtReturn(ret) == ErrNonNil || !fc.G.ReachAfter(v.ID, nil, nil)[ret] {
							continue
						}
						es := map[Edge]bool{}
						for _, e := range nonNil {
							es[e] = true
						}
						if fc.G.ReachAfter(v.ID, func(u *Vertex) bool { return u.ID == v.ID }, func(e Edge) bool { return es[e] })[ret] {
							ok = false
						}
					}
					r.Check(ok, rule, construct, p.posStr(ix.Pos()), "single-value lookup, nil-tested before success", "the result of looking up "+exprStr(ix)+" is not nil-tested with an error on the miss edge before the function can succeed: a dangling name yields a nil client/resolver that is dereferenced when traffic flows")
					return true
				}
				r.Fail(rule, construct, p.posStr(ix.Pos()), "a configured name is looked up in an unrecognised form ("+exprStr(v.Node)+"): neither comma-ok nor nil-tested")
				return true
			})
		}
	})
	r.Count("config_map_lookups", nLook)
	r.Count("config_map_insertions_by_name", nIns)
	r.Floor(rule, 24)
}

// ---------------------------------------------------------------- R3

type c18Range struct {
	rel, recv, fn string
	key           string
	lo, hi        int64
	doc           string
}

func c18R3(p *Prog, r *Report) {
	const rule = "C18-R3"
	r.Rule(rule, "numeric invariants guard their consumers (exact region analysis per option: the integers are partitioned by the constants the option is compared with, one representative per region is simulated through the validating function's CFG, helpers taking the option's address are entered): a nil-error return leaves relay/receive batch sizes in 1..1024, the send channel capacity >= 64, the initial payload wait timeout and buffer size positive; every relay / UDP client constructor is reached only with MTU >= 1280; PSK length is checked on the success edge before any cipher configuration is derived; the NAT timeout is accepted only past the comparison with the server's minimum or as the default, the minimum flows from the session server's Info(), which is the replay window constant, which covers the accepted timestamp window, and the default is not below it")
	tbl := []c18Range{
		{"service", "UDPPerfConfig", "CheckAndApplyDefaults", "recv.RelayBatchSize", 1, 1024, "relay batch size in 1..1024 (0 = default)"},
		{"service", "UDPPerfConfig", "CheckAndApplyDefaults", "recv.ServerRecvBatchSize", 1, 1024, "server receive batch size in 1..1024 (0 = default)"},
		{"service", "UDPPerfConfig", "CheckAndApplyDefaults", "recv.SendChannelCapacity", 64, regionPosInf, "send channel capacity >= 64 (0 = default)"},
		{"service", "TCPListenerConfig", "Configure", "initialPayloadWaitTimeout", 1, regionPosInf, "initial payload wait timeout positive (0 = default)"},
		{"service", "TCPListenerConfig", "Configure", "initialPayloadWaitBufferSize", 1, regionPosInf, "initial payload wait buffer size positive (0 = default)"},
	}
	for _, t := range tbl {
		fc := p.Func(t.rel, t.recv, t.fn)
		// "recv." stands for the receiver, whatever it is called
		if ro := fc.RecvObj(); ro != nil && strings.HasPrefix(t.key, "recv.") {
			t.key = ro.Name() + strings.TrimPrefix(t.key, "recv")
		}
		// a key without a dot names a field of the value the function builds: the variable
		// tracked is the local that field is given, whatever it is called
		if !strings.Contains(t.key, ".") {
			inits := fieldInits(fc, t.key)
			if len(inits) == 1 {
				if id, ok := ast.Unparen(inits[0]).(*ast.Ident); ok {
					t.key = id.Name
				}
			}
		}
		// the key must occur in the function (anchor)
		if !strings.Contains(fullStr(fc.Body), t.key) {
			r.Fail(rule, fmt.Sprintf("%s.(*%s).%s:range:%s", t.rel, t.recv, t.fn, t.key), p.posStr(fc.Body.Pos()), "the option "+t.key+" is not validated in this function any more")
			continue
		}
		spec := &regionSpec{p: p, fc: fc, key: t.key}
		outs := spec.run()
		bad, nOK := regionViolations(outs, t.lo, t.hi)
		detail := ""
		if len(bad) > 0 {
			b := bad[0]
			if b.Unknown {
				detail = fmt.Sprintf("for input %s the option leaves with a non-constant value", regionValStr(b.In))
			} else {
				detail = fmt.Sprintf("input %s is accepted and leaves the option at %s (return at %s)", regionValStr(b.In), regionValStr(b.Out), p.posStr(fc.G.V[b.Exit].Node.Pos()))
			}
		}
		r.Check(len(bad) == 0 && nOK > 0, rule, fmt.Sprintf("%s.(*%s).%s:range:%s", t.rel, t.recv, t.fn, t.key), p.posStr(fc.Body.Pos()),
			fmt.Sprintf("%s: %d regions simulated, every accepted value in range", t.doc, len(spec.representatives())),
			t.doc+" is not enforced: "+detail+" — the value reaches make()/recvmmsg sizing and channel construction when traffic flows")
		r.Count("regions_simulated", len(spec.representatives()))
	}
	// the defaults themselves are in range
	for _, d := range []struct {
		name   string
		lo, hi int64
	}{{"defaultRelayBatchSize", 1, 1024}, {"defaultServerRecvBatchSize", 1, 1024}, {"defaultSendChannelCapacity", 64, regionPosInf}, {"minimumMTU", 1280, 1280}} {
		c, _ := p.Pkg("service").Types.Scope().Lookup(d.name).(*types.Const)
		ok := false
		val := "missing"
		if c != nil {
			if k, exact := constant.Int64Val(constant.ToInt(c.Val())); exact {
				ok = k >= d.lo && k <= d.hi
				val = fmt.Sprint(k)
			}
		}
		r.Check(ok, rule, "service."+d.name+":in-range", "service/udp.go", d.name+" = "+val, d.name+" = "+val+" is outside its documented range")
	}
	// MTU: constructors reached only with MTU >= minimumMTU
	for _, site := range []struct{ recv, fn, key string }{{"ServerConfig", "UDPRelay", "recv.MTU"}, {"ClientConfig", "UDPClient", "recv.MTU"}} {
		fc := p.Func("service", site.recv, site.fn)
		if ro := fc.RecvObj(); ro != nil {
			site.key = ro.Name() + strings.TrimPrefix(site.key, "recv")
		}
		targets := map[int]bool{}
		var names []string
		for _, cs := range fc.AllCalls() {
			if cs.Fn == nil {
				continue
			}
			n := cs.Fn.Name()
			uses := false
			for _, a := range cs.Call.Args {
				if exprStr(a) == site.key {
					uses = true
				}
			}
			if uses && (strings.HasPrefix(n, "New") || strings.HasPrefix(n, "MaxPacketSizeForAddr")) {
				targets[cs.V] = true
				names = append(names, n)
			}
			// composite literals carrying the MTU
		}
		for _, v := range fc.G.V {
			if v.Node == nil {
				continue
			}
			inspectNoLit(v.Node, func(n ast.Node) bool {
				if kv, ok := n.(*ast.KeyValueExpr); ok && exprStr(kv.Key) == "MTU" && exprStr(kv.Value) == site.key {
					targets[v.ID] = true
					names = append(names, "literal MTU:")
				}
				return true
			})
		}
		// folding: compare against the constant minimumMTU is handled by constInt
		spec := &regionSpec{p: p, fc: fc, key: site.key, targets: targets}
		outs := spec.run()
		bad := ""
		n := 0
		for _, o := range outs {
			n++
			if o.Unknown || o.Out < 1280 {
				bad = fmt.Sprintf("MTU %s reaches %s", regionValStr(o.Out), exprStr(fc.G.V[o.Exit].Node))
			}
		}
		r.Check(bad == "" && len(targets) >= 3 && n > 0, rule, "service.(*"+site.recv+")."+site.fn+":mtu-at-least-1280", p.posStr(fc.Body.Pos()),
			fmt.Sprintf("%d consumers of the MTU (%s) reached only with MTU >= 1280", len(targets), strings.Join(uniqStr(names), ",")),
			"a consumer of the MTU is reachable with MTU below 1280: "+bad+fmt.Sprintf(" (%d consumers found)", len(targets)))
	}
	// PSK length before cipher configs
	for _, site := range []struct{ recv string }{{"ServerConfig"}, {"ClientConfig"}} {
		fc := p.Func("service", site.recv, "Initialize")
		var chk *CallSite
		for _, cs := range fc.AllCalls() {
			if cs.Fn != nil && cs.Fn.Name() == "CheckPSKLength" {
				c := cs
				chk = &c
			}
		}
		n := 0
		ok := chk != nil
		for _, cs := range fc.AllCalls() {
			if cs.Fn != nil && strings.HasSuffix(cs.Fn.Name(), "CipherConfig") && strings.HasPrefix(cs.Fn.Name(), "New") {
				n++
				if chk == nil || !chk.SuccessGuards(cs.V) {
					ok = false
				}
			}
		}
		// the checked arguments are the configured protocol and keys
		if chk != nil {
			a := argsStr(chk.Call)
			if !strings.Contains(a, ".Protocol") || !strings.Contains(a, ".PSK") {
				ok = false
			}
			if site.recv == "ClientConfig" && !strings.Contains(a, ".IPSKs") {
				ok = false
			}
		}
		r.Check(ok && n >= 1, rule, "service.(*"+site.recv+").Initialize:psk-length-before-cipher", p.posStr(fc.Body.Pos()), fmt.Sprintf("%d cipher configurations derived only after CheckPSKLength succeeded", n), "a cipher configuration is derived from keys whose length was not checked against the method")
	}
	// the sliding window filter size is bounded before a filter can be built from it
	c18FilterSize(p, r, rule)
	// the check itself tests every key it is given: the user key and each element of the key list
	c18PSKCheckCoversEveryKey(p, r, rule)
	// every protocol with ss2022 keys is covered: the case list that checks PSK equals the case lists that build ss2022 servers/clients
	c18ProtocolCases(p, r, rule)
	// NAT timeout
	c18NATTimeout(p, r, rule)
	r.Floor(rule, 18)
}

func uniqStr(in []string) []string {
	m := map[string]bool{}
	var out []string
	for _, s := range in {
		if !m[s] {
			m[s] = true
			out = append(out, s)
		}
	}
	sort.Strings(out)
	return out
}

// c18ProtocolCases: the protocol strings whose case checks the PSK in Initialize are exactly
// those whose cases construct ss2022 objects in the relay/client builders.
func c18ProtocolCases(p *Prog, r *Report, rule string) {
	casesWith := func(fc *FuncCtx, pred func(cc *ast.CaseClause) bool) []string {
		info := fc.Info()
		set := map[string]bool{}
		ast.Inspect(fc.Body, func(n ast.Node) bool {
			sw, ok := n.(*ast.SwitchStmt)
			if !ok || sw.Tag == nil || !strings.HasSuffix(exprStr(sw.Tag), ".Protocol") {
				return true
			}
			for _, cl := range sw.Body.List {
				cc := cl.(*ast.CaseClause)
				if !pred(cc) {
					continue
				}
				for _, e := range cc.List {
					if v, isC := constOf(info, e); isC {
						set[constant.StringVal(v)] = true
					}
				}
			}
			return true
		})
		var out []string
		for k := range set {
			out = append(out, k)
		}
		sort.Strings(out)
		return out
	}
	contains := func(sub string) func(cc *ast.CaseClause) bool {
		return func(cc *ast.CaseClause) bool {
			for _, st := range cc.Body {
				if strings.Contains(exprStr(st), sub) {
					return true
				}
			}
			return false
		}
	}
	for _, side := range []struct {
		recv     string
		builders []string
	}{{"ServerConfig", []string{"TCPRelay", "UDPRelay"}}, {"ClientConfig", []string{"TCPClient", "UDPClient"}}} {
		init := casesWith(p.Func("service", side.recv, "Initialize"), contains("CheckPSKLength"))
		for _, b := range side.builders {
			got := casesWith(p.Func("service", side.recv, b), contains("ss2022.New"))
			if len(got) == 0 {
				got = casesWith(p.Func("service", side.recv, b), contains("ss2022.Stream"))
			}
			r.Check(strings.Join(init, ",") == strings.Join(got, ",") && len(init) > 0, rule, "service.(*"+side.recv+")."+b+":ss2022-protocols-are-key-checked", "service", "protocols "+strings.Join(init, ","), fmt.Sprintf("protocols whose keys are length-checked %v differ from those that build Shadowsocks 2022 objects in %s %v", init, b, got))
		}
	}
}

func c18NATTimeout(p *Prog, r *Report, rule string) {
	fc := p.Func("service", "UDPListenerConfig", "Configure")
	info := fc.Info()
	// the value stored in the result
	var natObj types.Object
	ast.Inspect(fc.Body, func(n ast.Node) bool {
		if kv, ok := n.(*ast.KeyValueExpr); ok && exprStr(kv.Key) == "natTimeout" {
			natObj = objOf(info, kv.Value)
		}
		return true
	})
	minObj := fc.ParamObj(3)
	okCmp := false
	okDefault := false
	var defName string
	if natObj != nil && minObj != nil {
		// reject edge
		for _, cv := range fc.G.V {
			x, y, op, ok := condParts(cv)
			if !ok || y == nil {
				continue
			}
			lt := (op == token.LSS && objOf(info, x) == natObj && objOf(info, y) == minObj) || (op == token.GTR && objOf(info, y) == natObj && objOf(info, x) == minObj)
			if !lt {
				continue
			}
			for _, e := range cv.Succs {
				if e.Label == LTrue && errorOnlyFrom(fc, e) {
					okCmp = true
				}
			}
			// every successful return passes either the false edge of this comparison with no later redefinition, or a default assignment
			var pass []Edge
			for _, e := range cv.Succs {
				if e.Label == LFalse {
					pass = append(pass, e)
				}
			}
			var defV []int
			for _, d := range fc.Defs(natObj) {
				if as, ok := fc.G.V[d].Node.(*ast.AssignStmt); ok && as.Tok == token.ASSIGN {
					if id, ok := ast.Unparen(as.Rhs[0]).(*ast.Ident); ok {
						if _, isC := info.Uses[id].(*types.Const); isC {
							defV = append(defV, d)
							defName = id.Name
						}
					}
				}
			}
			isDef := map[int]bool{}
			for _, d := range defV {
				isDef[d] = true
			}
			for _, ret := range fc.Returns() {
				if fc.ErrAtReturn(ret) == ErrNonNil {
					continue
				}
				// paths avoiding both the pass edge and the default assignment
				reach := fc.G.Reach([]int{fc.G.Entry}, func(v *Vertex) bool { return isDef[v.ID] }, func(e Edge) bool {
					for _, pe := range pass {
						if pe == e {
							return true
						}
					}
					return false
				})
				okDefault = !reach[ret]
				// no other redefinition after the comparison
				for _, d := range fc.Defs(natObj) {
					if !isDef[d] && fc.G.ReachAfter(cv.ID, nil, nil)[d] {
						okDefault = false
					}
				}
			}
		}
	}
	r.Check(okCmp && okDefault, rule, "service.(*UDPListenerConfig).Configure:nat-timeout-at-least-minimum", p.posStr(fc.Body.Pos()), "accepted only past natTimeout >= minimum, or as the default", "a NAT timeout below the server's minimum can be accepted (the comparison with the minimum is missing, bypassable, or its reject edge does not return an error)")
	// default >= replay window
	svc := p.Pkg("service").Types.Scope()
	ss := p.Pkg("ss2022").Types.Scope()
	cval := func(sc *types.Scope, name string) (int64, bool) {
		c, ok := sc.Lookup(name).(*types.Const)
		if !ok {
			return 0, false
		}
		k, exact := constant.Int64Val(constant.ToInt(c.Val()))
		return k, exact
	}
	if defName == "" {
		defName = "defaultNatTimeout"
	}
	defV, ok1 := cval(svc, defName)
	rw, ok2 := cval(ss, "ReplayWindowDuration")
	r.Check(ok1 && ok2 && defV >= rw, rule, "service."+defName+":covers-replay-window", "service/udp.go", fmt.Sprintf("%s = %dns >= ReplayWindowDuration = %dns", defName, defV, rw), fmt.Sprintf("the default NAT timeout (%d ns) is shorter than the replay window (%d ns)", defV, rw))
	// provenance of the minimum in ServerConfig.UDPRelay
	ur := p.Func("service", "ServerConfig", "UDPRelay")
	uinfo := ur.Info()
	okProv := false
	var passed types.Object
	for _, cs := range ur.AllCalls() {
		if cs.Fn != nil && cs.Fn.Name() == "Configure" && len(cs.Call.Args) >= 4 {
			passed = objOf(uinfo, cs.Call.Args[3])
		}
	}
	nDefs := 0
	minDef := -1
	var srvObj types.Object
	if passed != nil {
		for _, d := range ur.Defs(passed) {
			switch n := ur.G.V[d].Node.(type) {
			case *ast.ValueSpec:
				if len(n.Values) == 0 {
					continue
				}
			case *ast.AssignStmt:
				nDefs++
				rhs := exprStr(n.Rhs[0])
				if sel, ok := ast.Unparen(n.Rhs[0]).(*ast.SelectorExpr); ok && sel.Sel.Name == "MinNATTimeout" {
					if io := objOf(uinfo, sel.X); io != nil {
						if src, _, _, okd := ur.SoleDefRHS(io); okd && isSessionServerInfoCall(uinfo, src) {
							okProv = true
							minDef = d
							if c, isCall := ast.Unparen(src).(*ast.CallExpr); isCall {
								if fs, isSel := ast.Unparen(c.Fun).(*ast.SelectorExpr); isSel {
									srvObj = objOf(uinfo, fs.X)
								}
							}
						}
					}
				}
				_ = rhs
			}
		}
	}
	// and that assignment lies between the construction of the session server and the
	// configuration of the listeners on every path the function's own tests allow (the form
	// `if sessionServer != nil { … }`); or, for switches over the protocol name, …
	pathOK := false
	if okProv && minDef >= 0 && srvObj != nil {
		var builds []int
		for _, d := range ur.Defs(srvObj) {
			if vs, isVS := ur.G.V[d].Node.(*ast.ValueSpec); isVS && len(vs.Values) == 0 {
				continue
			}
			builds = append(builds, d)
		}
		pathOK = len(builds) > 0
		nConf := 0
		for _, cs := range ur.AllCalls() {
			if cs.Fn != nil && cs.Fn.Name() == "Configure" {
				nConf++
				if !ur.PassesBefore(builds, []int{minDef}, cs.V) {
					pathOK = false
				}
			}
		}
		if nConf == 0 {
			pathOK = false
		}
	}
	// … that assignment happens in every case that builds a session server
	if okProv {
		buildKey := "sessionServer ="
		if srvObj != nil {
			buildKey = srvObj.Name() + " ="
		}
		build := casesWithStmt(ur, buildKey)
		assign := casesWithStmt(ur, ".MinNATTimeout")
		okProv = strings.Join(build, ",") == strings.Join(assign, ",") && len(build) > 0
	}
	// and it happens before the listeners are configured with it: the switch that assigns the
	// minimum (for exactly the session protocols, see above) lies on every path to the Configure
	// call
	if okProv && passed != nil {
		for _, d := range ur.Defs(passed) {
			as, isAs := ur.G.V[d].Node.(*ast.AssignStmt)
			if !isAs {
				continue
			}
			// the innermost switch statement around the assignment
			var sw *ast.SwitchStmt
			ast.Inspect(ur.Body, func(n ast.Node) bool {
				if x, ok := n.(*ast.SwitchStmt); ok && x.Pos() <= as.Pos() && as.End() <= x.End() {
					sw = x
				}
				return true
			})
			var heads []int
			for _, v := range ur.G.V {
				if sw != nil && v.Kind == VSwitchCase && v.Node != nil && sw.Body.Pos() <= v.Node.Pos() && v.Node.End() <= sw.Body.End() {
					heads = append(heads, v.ID)
				}
			}
			if sw == nil {
				heads = []int{d}
			}
			for _, cs := range ur.AllCalls() {
				if cs.Fn != nil && cs.Fn.Name() == "Configure" && !ur.G.Dominates(heads, cs.V) {
					okProv = false
				}
			}
		}
	}
	okProv = okProv || pathOK
	r.Check(okProv && nDefs == 1, rule, "service.(*ServerConfig).UDPRelay:minimum-from-session-server", p.posStr(ur.Body.Pos()), "the minimum handed to every listener is sessionServer.Info().MinNATTimeout for exactly the protocols that build a session server, assigned before the listeners are configured", "the minimum NAT timeout handed to the listeners does not come from the session server's Info() for every protocol that builds one (or the listeners are configured before it is assigned, i.e. against zero)")
	// ss2022.NewUDPServer advertises the replay window; Info returns it
	ns := p.Func("ss2022", "", "NewUDPServer")
	adv := ""
	for _, val := range fieldInits(ns, "MinNATTimeout") {
		// several initialisations: the smallest constant counts, a non-constant one is reported as is
		cur := exprStr(val)
		if v, isC := constOf(ns.Info(), val); isC {
			if k, exact := constant.Int64Val(constant.ToInt(v)); exact {
				cur = fmt.Sprint(k)
			}
		}
		if adv == "" || (atoi64(cur) < atoi64(adv)) {
			adv = cur
		}
	}
	w, _, werr := extractTimestampWindow(p)
	ret, rerr := extractRetention(p, NewReport("tmp", "quick"))
	need := rw
	detail := ""
	if werr == nil && w.WidthNs > need {
		need = w.WidthNs
	}
	if rerr == nil && ret.Ns > need {
		need = ret.Ns
	}
	if werr != nil || rerr != nil {
		detail = fmt.Sprintf(" (window extraction: %v %v)", werr, rerr)
	}
	r.Check(adv == fmt.Sprint(need) || (adv != "" && atoi64(adv) >= need), rule, "ss2022.NewUDPServer:min-nat-timeout-covers-replay-window", p.posStr(ns.Body.Pos()),
		fmt.Sprintf("advertised minimum %s ns >= max(replay window %d ns, accepted timestamp span %d ns, salt retention %d ns)", adv, rw, w.WidthNs, ret.Ns),
		fmt.Sprintf("the session server advertises a minimum NAT timeout of %s ns, shorter than the replay window / accepted timestamp span (%d ns)%s: a session and its sliding-window filter can be evicted while its packets are still accepted, so a replayed packet opens a fresh session", adv, need, detail))
	inf := p.Func("ss2022", "UDPServer", "Info")
	okInfo := false
	for _, rv := range inf.Returns() {
		if strings.HasSuffix(exprStr(inf.G.V[rv].Node.(*ast.ReturnStmt).Results[0]), ".info") {
			okInfo = true
		}
	}
	r.Check(okInfo, rule, "ss2022.(*UDPServer).Info:returns-constructed-info", p.posStr(inf.Body.Pos()), "Info returns the constructed info", "Info does not return the info built by NewUDPServer")
}

func atoi64(s string) int64 {
	var k int64
	_, err := fmt.Sscan(s, &k)
	if err != nil {
		return -1
	}
	return k
}

func casesWithStmt(fc *FuncCtx, sub string) []string {
	info := fc.Info()
	set := map[string]bool{}
	ast.Inspect(fc.Body, func(n ast.Node) bool {
		cc, ok := n.(*ast.CaseClause)
		if !ok {
			return true
		}
		has := false
		for _, st := range cc.Body {
			if strings.Contains(exprStr(st), sub) {
				has = true
			}
		}
		if has {
			for _, e := range cc.List {
				if v, isC := constOf(info, e); isC && v.Kind() == constant.String {
					set[constant.StringVal(v)] = true
				}
			}
		}
		return true
	})
	var out []string
	for k := range set {
		out = append(out, k)
	}
	sort.Strings(out)
	return out
}

// ---------------------------------------------------------------- R4

// addrAccessorNeeds: panicking conn.Addr accessor → predicates (true edge) that discharge it.
var addrAccessorNeeds = map[string][]string{
	"IP":            {"IsIP"},
	"IPPort":        {"IsIP"},
	"Domain":        {"IsDomain"},
	"Host":          {"IsValid", "IsIP", "IsDomain"},
	"ResolveIP":     {"IsValid", "IsIP", "IsDomain"},
	"ResolveIPPort": {"IsValid", "IsIP", "IsDomain"},
}

// addrGuarded: the call recv.M() at vertex v is dominated by the true edge of recv.P() for an
// accepted predicate P on the same path expression, with no redefinition in between.
func addrGuarded(fc *FuncCtx, call *ast.CallExpr, v int) bool {
	sel, ok := ast.Unparen(call.Fun).(*ast.SelectorExpr)
	if !ok {
		return false
	}
	return addrGuardedExpr(fc, sel.X, sel.Sel.Name, v)
}

// addrGuardedExpr: vertex v is dominated by the true edge of recv.P() for a predicate P that
// discharges the named accessor, on the same path expression, with no redefinition in between.
func addrGuardedExpr(fc *FuncCtx, recv ast.Expr, accessor string, v int) bool {
	info := fc.Info()
	needs := addrAccessorNeeds[accessor]
	recvKey := pathKey(info, recv)
	if recvKey == "" {
		return false
	}
	root, _, _ := pathOf(info, recv)
	var edges []Edge
	for _, cv := range fc.G.V {
		if cv.Kind != VCond {
			continue
		}
		c, ok := ast.Unparen(cv.Node.(ast.Expr)).(*ast.CallExpr)
		if !ok || len(c.Args) != 0 {
			continue
		}
		cs, ok := ast.Unparen(c.Fun).(*ast.SelectorExpr)
		if !ok || pathKey(info, cs.X) != recvKey {
			continue
		}
		fn := Callee(info, c)
		if fn == nil || namedTypeName(recvTypeOf(fn)) != "Addr" {
			continue
		}
		for _, n := range needs {
			if cs.Sel.Name == n {
				for _, e := range cv.Succs {
					if e.Label == LTrue {
						// no redefinition of the root between the test and the use
						redefined := false
						if root != nil {
							for _, d := range fc.Defs(root) {
								if fc.G.ReachAfter(cv.ID, nil, nil)[d] && fc.G.Reach([]int{d}, nil, nil)[v] && d != v {
									// a definition strictly between
									if !fc.G.Dominates([]int{cv.ID}, d) || fc.G.Reach([]int{d}, func(u *Vertex) bool { return u.ID == cv.ID }, nil)[v] {
										redefined = true
									}
								}
							}
						}
						if !redefined {
							edges = append(edges, e)
						}
					}
				}
			}
		}
	}
	return len(edges) > 0 && fc.G.EdgeDominates(edges, v)
}

func c18R4(p *Prog, r *Report) {
	const rule = "C18-R4"
	r.Rule(rule, "accepted configurations cannot reach a designed panic: in the configuration package every call of a panicking conn.Addr accessor (IP, IPPort, Domain, Host, ResolveIP, ResolveIPPort) on a configured address is dominated by the true edge of the matching predicate on the same field; the direct UDP server's target-only mode, which compares packet sources with tunnelRemoteAddress.IPPort(), is constructed only past the rejection of a non-IP tunnel address; the network strings Initialize accepts are exactly the cases tcpNetwork handles before its unreachable panic")
	n := 0
	p.AllFuncs(p.Pkg("service"), func(fc *FuncCtx) {
		for _, ctx := range allCtxs(p, fc) {
			info := ctx.Info()
			for _, cs := range ctx.AllCalls() {
				if cs.Fn == nil || namedTypeName(recvTypeOf(cs.Fn)) != "Addr" || namedTypePkg(recvTypeOf(cs.Fn)) != mp("conn") {
					continue
				}
				if _, need := addrAccessorNeeds[cs.Fn.Name()]; !need {
					continue
				}
				_ = info
				n++
				r.Check(addrGuarded(ctx, cs.Call, cs.V), rule, ctx.Name+":"+exprStr(cs.Call), cs.Pos(), "dominated by the matching predicate", exprStr(cs.Call)+" is called on a configured address that was not tested with "+strings.Join(addrAccessorNeeds[cs.Fn.Name()], "/")+"() on this path: a configuration that leaves the address empty (or gives a domain) panics instead of being refused")
			}
		}
	})
	r.Count("service_addr_accessor_calls", n)
	// target-only with IPPort
	pk := p.Pkg("direct")
	usesIPPortOnTarget := false
	p.AllFuncs(pk, func(fc *FuncCtx) {
		if fc.Decl == nil || fc.Decl.Recv == nil || recvTypeName(fc.Decl.Recv.List[0].Type) != "DirectPacketServerPackUnpacker" {
			return
		}
		for _, cs := range fc.AllCalls() {
			if cs.Fn != nil && (cs.Fn.Name() == "IPPort" || cs.Fn.Name() == "IP") && strings.HasSuffix(exprStr(cs.Call.Fun), ".targetAddr."+cs.Fn.Name()) {
				if !addrGuarded(fc, cs.Call, cs.V) {
					usesIPPortOnTarget = true
				}
			}
		}
	})
	si := p.Func("service", "ServerConfig", "Initialize")
	ur := p.Func("service", "ServerConfig", "UDPRelay")
	if usesIPPortOnTarget {
		// the constructor call must be unreachable for (targetOnly && !IsIP): look for the rejection in Initialize or UDPRelay
		ok := false
		for _, fc := range []*FuncCtx{si, ur} {
			info := fc.Info()
			var onlyT, ipF []Edge
			for _, cv := range fc.G.V {
				if cv.Kind != VCond {
					continue
				}
				s := exprStr(cv.Node)
				if strings.HasSuffix(s, ".TunnelUDPTargetOnly") {
					onlyT = append(onlyT, trueEdges(cv)...)
				}
				if c, isC := ast.Unparen(cv.Node.(ast.Expr)).(*ast.CallExpr); isC && strings.HasSuffix(exprStr(c.Fun), ".TunnelRemoteAddress.IsIP") {
					for _, e := range cv.Succs {
						if e.Label == LFalse {
							ipF = append(ipF, e)
						}
					}
				}
			}
			_ = info
			// a return of a non-nil error dominated by both edges, in a function every accepted direct UDP config passes
			for _, ret := range fc.Returns() {
				if fc.ErrAtReturn(ret) == ErrNonNil && len(onlyT) > 0 && len(ipF) > 0 && fc.G.EdgeDominates(onlyT, ret) && fc.G.EdgeDominates(ipF, ret) {
					// and the conjunction cannot fall through: from ipF edge every path is an error
					all := true
					for _, e := range ipF {
						if fc.G.EdgeDominates(onlyT, e.From) || true {
							if !errorOnlyFrom(fc, e) {
								all = false
							}
						}
					}
					// no further option may narrow the refusal, except the very switch that decides
					// whether a UDP relay is built at all (UDPRelay's own enable test): a refusal
					// that also asks for, say, the legacy enableUDP flag lets the listener-array
					// form of the same configuration through
					udpGuards := map[types.Object]bool{} // boolean fields whose falsity disables the UDP relay
					lenGuards := map[types.Object]bool{} // slice fields whose emptiness disables it
					lenOf := func(info *types.Info, e ast.Expr) types.Object {
						c, ok := ast.Unparen(e).(*ast.CallExpr)
						if !ok || len(c.Args) != 1 {
							return nil
						}
						if id, ok := ast.Unparen(c.Fun).(*ast.Ident); !ok || id.Name != "len" {
							return nil
						}
						if f := fieldOrVar(info, c.Args[0]); f != nil && isField(f) {
							return f
						}
						return nil
					}
					for _, cv := range ur.G.V {
						if cv.Kind != VCond {
							continue
						}
						if f := fieldOrVar(ur.Info(), cv.Node.(ast.Expr)); f != nil && isField(f) {
							for _, e := range cv.Succs {
								if e.Label == LFalse && errorOnlyFrom(ur, e) {
									udpGuards[f] = true
								}
							}
						}
						if x, y, op, okc := condParts(cv); okc && y != nil {
							if k, isC := constInt(ur.Info(), y); isC && k == 0 {
								if f := lenOf(ur.Info(), x); f != nil {
									for _, e := range cv.Succs {
										emptyEdge := (op == token.EQL && e.Label == LTrue) || ((op == token.NEQ || op == token.GTR) && e.Label == LFalse)
										if emptyEdge && errorOnlyFrom(ur, e) {
											lenGuards[f] = true
										}
									}
								}
							}
						}
					}
					// a boolean field computed (before the refusal) as a disjunction one of whose
					// members is "that slice is not empty" is implied by the relay being built
					for _, v := range fc.G.V {
						as, isAs := v.Node.(*ast.AssignStmt)
						if !isAs || len(as.Lhs) != 1 || len(as.Rhs) != 1 || !fc.G.Dominates([]int{v.ID}, ret) {
							continue
						}
						f := fieldOrVar(fc.Info(), as.Lhs[0])
						if f == nil || !isField(f) {
							continue
						}
						var disj func(e ast.Expr) bool
						disj = func(e ast.Expr) bool {
							e = ast.Unparen(e)
							if be, ok := e.(*ast.BinaryExpr); ok {
								if be.Op == token.LOR {
									return disj(be.X) || disj(be.Y)
								}
								if k, isC := constInt(fc.Info(), be.Y); isC && k == 0 && (be.Op == token.GTR || be.Op == token.NEQ) {
									if lf := lenOf(fc.Info(), be.X); lf != nil && lenGuards[lf] {
										return true
									}
								}
							}
							return false
						}
						if disj(as.Rhs[0]) && len(fc.Defs(f)) == 0 {
							udpGuards[f] = true
						}
					}
					for _, cv := range fc.G.V {
						if cv.Kind != VCond || !fc.G.EdgeDominates(trueEdges(cv), ret) {
							continue
						}
						f := fieldOrVar(fc.Info(), cv.Node.(ast.Expr))
						if f == nil || !isField(f) || f.Name() == "TunnelUDPTargetOnly" {
							continue
						}
						if b, isB := f.Type().Underlying().(*types.Basic); !isB || b.Kind() != types.Bool {
							continue
						}
						if !udpGuards[f] {
							all = false
						}
					}
					if all {
						ok = true
					}
				}
			}
		}
		r.Check(ok, rule, "service.(*ServerConfig):target-only-needs-ip-address", p.posStr(si.Body.Pos()), "tunnelUDPTargetOnly with a non-IP tunnelRemoteAddress is refused at load", "direct.(*DirectPacketServerPackUnpacker).PackInPlace compares packet sources with targetAddr.IPPort() in target-only mode, but a configuration with tunnelUDPTargetOnly and a domain-name tunnelRemoteAddress is accepted: the first reply packet panics the relay goroutine")
	} else {
		r.OK(rule, "service.(*ServerConfig):target-only-needs-ip-address", p.posStr(si.Body.Pos()), "the direct packer guards its own IPPort() call")
	}
	// direct requires a valid address before the constructors
	okValid := false
	for _, cv := range si.G.V {
		if c, isC := cv.Node.(ast.Expr); isC && cv.Kind == VCond {
			if ce, ok := ast.Unparen(c).(*ast.CallExpr); ok && strings.HasSuffix(exprStr(ce.Fun), ".TunnelRemoteAddress.IsValid") {
				for _, e := range cv.Succs {
					if e.Label == LFalse && errorOnlyFrom(si, e) {
						// under case "direct"
						okValid = true
					}
				}
			}
		}
	}
	direct := casesWithStmt(si, "TunnelRemoteAddress.IsValid")
	r.Check(okValid && strings.Join(direct, ",") == "direct", rule, "service.(*ServerConfig).Initialize:direct-needs-address", p.posStr(si.Body.Pos()), "protocol direct requires a valid tunnelRemoteAddress", "a direct server without tunnelRemoteAddress is accepted")
	// the designed panic behind the network option ("unreachable" in tcpNetwork): Initialize,
	// with its helpers expanded, is walked once for every value the option can start with (each
	// string constant it is ever compared with or set to, and one value different from all of
	// them); a test of the option is followed only on the edge that agrees with the value, an
	// assignment of a constant changes it; no walk may arrive at a panic
	ci := p.Inlined(p.Func("service", "ClientConfig", "Initialize"))
	cinfo := ci.Info()
	isNet := func(e ast.Expr) bool { return strings.HasSuffix(exprStr(ci.Resolve(e)), ".Network") }
	type netTest struct {
		k     string
		eqLab int
	}
	tests := map[int]netTest{}
	sets := map[int]string{}
	unknownSet := map[int]bool{}
	values := map[string]bool{}
	for _, v := range ci.G.V {
		if x, y, op, ok := condParts(v); ok && y != nil && (op == token.EQL || op == token.NEQ) {
			var other ast.Expr
			switch {
			case isNet(x):
				other = y
			case isNet(y):
				other = x
			}
			if other != nil {
				if cv, isC := constOf(cinfo, other); isC && cv.Kind() == constant.String {
					lab := LTrue
					if op == token.NEQ {
						lab = LFalse
					}
					tests[v.ID] = netTest{constant.StringVal(cv), lab}
					values[constant.StringVal(cv)] = true
				}
			}
		}
		if as, ok := v.Node.(*ast.AssignStmt); ok && v.Kind == VStmt {
			for i, l := range as.Lhs {
				if !isNet(l) {
					continue
				}
				if _, isSel := ast.Unparen(l).(*ast.SelectorExpr); !isSel {
					continue
				}
				if len(as.Lhs) == len(as.Rhs) {
					if cv, isC := constOf(cinfo, as.Rhs[i]); isC && cv.Kind() == constant.String {
						sets[v.ID] = constant.StringVal(cv)
						values[constant.StringVal(cv)] = true
						continue
					}
				}
				unknownSet[v.ID] = true
			}
		}
	}
	const otherNet = "\x00other"
	values[otherNet] = true
	if len(tests) == 0 {
		r.Fail(rule, "service.(*ClientConfig).Initialize:network-tests", p.posStr(ci.Body.Pos()), "undecided: no test of the network option found in Initialize")
	}
	for _, k0 := range keysOf(values) {
		type st struct {
			v int
			k string
		}
		seen := map[st]bool{{ci.G.Entry, k0}: true}
		stack := []st{{ci.G.Entry, k0}}
		hit := ""
		for len(stack) > 0 {
			cur := stack[len(stack)-1]
			stack = stack[:len(stack)-1]
			if cur.v == ci.G.Panic {
				hit = cur.k
				break
			}
			k := cur.k
			if nk, ok := sets[cur.v]; ok {
				k = nk
			}
			ks := []string{k}
			if unknownSet[cur.v] {
				ks = keysOf(values) // a computed value: any of them
			}
			for _, k := range ks {
				for _, e := range ci.G.V[cur.v].Succs {
					if t, ok := tests[cur.v]; ok && (e.Label == LTrue || e.Label == LFalse) {
						if (e.Label == t.eqLab) != (k == t.k) {
							continue
						}
					}
					n := st{e.To, k}
					if !seen[n] {
						seen[n] = true
						stack = append(stack, n)
					}
				}
			}
		}
		name := k0
		if k0 == otherNet {
			name = "<any other>"
		}
		r.Check(hit == "", rule, fmt.Sprintf("service.(*ClientConfig).Initialize:no-panic-for-network:%q", name), p.posStr(ci.Body.Pos()), "no panic is reachable when the network option starts as this value", fmt.Sprintf("with network %q Initialize reaches a panic (the option then being %q): an accepted configuration crashes the process at start-up instead of being refused", name, hit))
	}
	c18ClientAddresses(p, r, rule)
	r.Floor(rule, 5)
}

func keysOf(m map[string]bool) []string {
	var out []string
	for k := range m {
		out = append(out, k)
	}
	sort.Strings(out)
	return out
}

// ---------------------------------------------------------------- R5

func c18R5(p *Prog, r *Report) {
	const rule = "C18-R5"
	r.Rule(rule, "legacy single-listener fields mean the same everywhere: the TCP and UDP listener literals built from the deprecated server fields in ServerConfig.Initialize and in Config.Migrate are identical field by field; tcpEnabled/udpEnabled account for both representations; every server protocol accepted by one of TCPRelay/UDPRelay that the other refuses is an explicit error, never a nil relay")
	si := p.Func("service", "ServerConfig", "Initialize")
	mg := p.Func("service", "Config", "Migrate")
	lits := func(fc *FuncCtx, typ string) []string {
		var out []string
		ast.Inspect(fc.Body, func(n ast.Node) bool {
			cl, ok := n.(*ast.CompositeLit)
			if !ok || namedTypeName(fc.Info().TypeOf(cl)) != typ {
				return true
			}
			// the server configuration the fields are read from is called differently in the
			// two functions (receiver vs loop variable): print it as one name
			str := strings.Join(strings.Fields(fullStr(cl)), "")
			names := map[string]bool{}
			ast.Inspect(cl, func(m ast.Node) bool {
				if id, isId := m.(*ast.Ident); isId {
					if o, isVar := fc.Info().Uses[id].(*types.Var); isVar && !o.IsField() && namedTypeName(o.Type()) == "ServerConfig" {
						names[id.Name] = true
					}
				}
				return true
			})
			for nm := range names {
				str = regexp.MustCompile(`(^|[^A-Za-z0-9_.])`+regexp.QuoteMeta(nm)+`\.`).ReplaceAllString(str, "${1}<server>.")
			}
			out = append(out, str)
			return false
		})
		// the value may come from a helper of the package that both sites share: the helper's
		// identity stands for its value
		for _, cs := range fc.AllCalls() {
			if cs.Fn == nil || cs.Fn.Pkg() == nil || cs.Fn.Pkg().Path() != mp("service") {
				continue
			}
			sig := cs.Fn.Type().(*types.Signature)
			if sig.Results().Len() == 1 && namedTypeName(sig.Results().At(0).Type()) == typ {
				recvT := ""
				if rt := recvTypeOf(cs.Fn); rt != nil {
					recvT = namedTypeName(rt)
				}
				out = append(out, "call "+recvT+"."+cs.Fn.Name())
			}
		}
		return out
	}
	for _, typ := range []string{"TCPListenerConfig", "UDPListenerConfig"} {
		a, b := lits(si, typ), lits(mg, typ)
		ok := len(a) == 1 && len(b) == 1 && a[0] == b[0]
		r.Check(ok, rule, "service:legacy-"+typ+"-literal-agrees", p.posStr(si.Body.Pos()), "Initialize and Migrate build the same "+typ, "ServerConfig.Initialize and Config.Migrate expand the legacy single-listener fields into different "+typ+" values: a configuration behaves differently after -fmtConf migration")
	}
	// enabled flags
	okEn := 0
	for _, v := range si.G.V {
		if as, ok := v.Node.(*ast.AssignStmt); ok && len(as.Lhs) == 1 {
			l, rhs := exprStr(as.Lhs[0]), strings.Join(strings.Fields(exprStr(as.Rhs[0])), "")
			rn := "sc"
			if ro := si.RecvObj(); ro != nil {
				rn = ro.Name()
			}
			if l == rn+".tcpEnabled" && rhs == rn+".EnableTCP||len("+rn+".TCPListeners)>0" {
				okEn++
			}
			if l == rn+".udpEnabled" && rhs == rn+".EnableUDP||len("+rn+".UDPListeners)>0" {
				okEn++
			}
		}
	}
	r.Check(okEn == 2, rule, "service.(*ServerConfig).Initialize:enabled-flags", p.posStr(si.Body.Pos()), "tcpEnabled/udpEnabled cover both representations", "tcpEnabled/udpEnabled do not account for both the legacy flag and the listener arrays")
	// the raw legacy flags decide nothing on their own: they are only tested (to synthesise the
	// legacy listener, to warn, to migrate) or folded into the derived flags — what is handed to
	// the protocol constructors is the derived value, which also counts the listener arrays
	nLegacy := 0
	p.AllFuncs(p.Pkg("service"), func(top *FuncCtx) {
		for _, fc := range allCtxs(p, top) {
			info := fc.Info()
			for _, fa := range fc.FieldAccesses(mp("service"), "ServerConfig", map[string]bool{"EnableTCP": true, "EnableUDP": true}) {
				if fa.Write {
					continue
				}
				nLegacy++
				vx := fc.G.V[fa.V]
				ok := vx.Kind == VCond || vx.Kind == VSwitchCase
				how := "tested"
				if as, isAs := vx.Node.(*ast.AssignStmt); isAs && vx.Kind == VStmt && len(as.Lhs) == 1 && len(as.Rhs) == 1 {
					if ls, isSel := ast.Unparen(as.Lhs[0]).(*ast.SelectorExpr); isSel {
						if f, _ := info.Uses[ls.Sel].(*types.Var); f != nil && f.IsField() && namedTypeName(info.TypeOf(ls.X)) == "ServerConfig" {
							// the derivation: legacy flag || len(listeners) > 0
							norm := strings.Join(strings.Fields(exprStr(as.Rhs[0])), "")
							if strings.Contains(norm, "||len(") && strings.HasSuffix(norm, ">0") {
								ok = true
								how = "folded into " + f.Name()
							}
						}
					}
				}
				// inside the condition of an if / the tag of a switch held in the same vertex
				if !ok {
					if _, isIf := vx.Stmt.(*ast.IfStmt); isIf && vx.Kind == VCond {
						ok = true
					}
				}
				r.Check(ok, rule, fmt.Sprintf("%s:legacy-flag-read:%s@%s", fc.Name, fa.Field.Name(), exprStr(vx.Node)), p.posStr(fa.Sel.Pos()), how, "the deprecated "+fa.Field.Name()+" flag is used as a value ("+exprStr(vx.Node)+"): a server configured through the listener arrays alone gets the disabled variant (e.g. ciphers built without their UDP part) and fails when traffic arrives, while the legacy spelling of the same configuration works")
			}
		}
	})
	r.Count("legacy_flag_reads", nLegacy)
	// builders: default case is an error
	for _, b := range []string{"TCPRelay", "UDPRelay"} {
		fc := p.Func("service", "ServerConfig", b)
		ok := true
		n := 0
		ast.Inspect(fc.Body, func(x ast.Node) bool {
			sw, isSw := x.(*ast.SwitchStmt)
			if !isSw || sw.Tag == nil || !strings.HasSuffix(exprStr(sw.Tag), ".Protocol") {
				return true
			}
			hasDefault := false
			for _, cl := range sw.Body.List {
				cc := cl.(*ast.CaseClause)
				if cc.List == nil {
					hasDefault = true
					isErr := false
					for _, st := range cc.Body {
						if rs, ok := st.(*ast.ReturnStmt); ok && len(rs.Results) > 0 && nonNilErrExpr(fc.Info(), rs.Results[len(rs.Results)-1]) {
							isErr = true
						}
					}
					if !isErr {
						ok = false
					}
				}
			}
			if hasDefault {
				n++
			}
			return true
		})
		r.Check(ok && n >= 1, rule, "service.(*ServerConfig)."+b+":unknown-protocol-is-error", p.posStr(fc.Body.Pos()), "unknown protocols are refused", "an unknown protocol does not end in an error")
	}
	r.Floor(rule, 5)
}

// isSessionServerInfoCall: e is <a zerocopy.UDPSessionServer value>.Info().
func isSessionServerInfoCall(info *types.Info, e ast.Expr) bool {
	c, ok := ast.Unparen(e).(*ast.CallExpr)
	if !ok {
		return false
	}
	sel, ok := ast.Unparen(c.Fun).(*ast.SelectorExpr)
	return ok && sel.Sel.Name == "Info" && namedTypeName(info.TypeOf(sel.X)) == "UDPSessionServer"
}


// c18PSKCheckCoversEveryKey: ss2022.CheckPSKLength is the only place where identity keys (iPSKs) are
// measured before ciphers are built from them (a wrong length is a silent wrong AES variant or a
// makeslice panic on the first connection). Every byte-slice parameter has its own len() compared
// with the method's key length, and every element of a [][]byte parameter is compared inside a
// loop over that parameter — the element itself (the range value, or the parameter indexed by the
// range key), not some other variable of the same type that happens to be in scope.
func c18PSKCheckCoversEveryKey(p *Prog, r *Report, rule string) {
	fc := p.Inlined(p.Func("ss2022", "", "CheckPSKLength"))
	info := fc.Info()
	prefix := "ss2022.CheckPSKLength"
	// the expected length: result 0 of PSKLengthForMethod
	var want types.Object
	for _, cs := range fc.AllCalls() {
		if cs.Fn != nil && cs.Fn.Name() == "PSKLengthForMethod" {
			want = cs.ResultVar(0)
		}
	}
	if want == nil {
		r.Fail(rule, prefix+":expected-length", p.posStr(fc.Body.Pos()), "the expected key length is not taken from PSKLengthForMethod")
		return
	}
	// a length test of expression e: cond `len(e) != want` (or ==) whose mismatch edge reaches only non-nil error returns
	lenTested := func(isE func(ast.Expr) bool, within func(int) bool) bool {
		for _, v := range fc.G.V {
			x, y, op, ok := condParts(v)
			if !ok || y == nil || (op != token.NEQ && op != token.EQL) || (within != nil && !within(v.ID)) {
				continue
			}
			var lenSide, other ast.Expr
			for _, pr := range [][2]ast.Expr{{x, y}, {y, x}} {
				if c, isC := ast.Unparen(pr[0]).(*ast.CallExpr); isC && exprStr(c.Fun) == "len" && len(c.Args) == 1 && isE(c.Args[0]) {
					lenSide, other = pr[0], pr[1]
				}
			}
			if lenSide == nil || objOf(info, fc.Resolve(other)) != want && objOf(info, other) != want {
				continue
			}
			mismatch := LTrue
			if op == token.EQL {
				mismatch = LFalse
			}
			good := false
			for _, e := range v.Succs {
				if e.Label != mismatch {
					continue
				}
				good = true
				// from the mismatch edge, every exit reached without passing another condition is an error return
				reach := fc.G.Reach([]int{e.To}, func(u *Vertex) bool { return u.Kind == VCond || u.Kind == VRange }, nil)
				sawRet := false
				for _, ret := range fc.Returns() {
					if reach[ret] {
						sawRet = true
						if fc.ErrAtReturn(ret) != ErrNonNil {
							good = false
						}
					}
				}
				if !sawRet {
					good = false
				}
			}
			if good {
				return true
			}
		}
		return false
	}
	n := 0
	for i := 0; fc.ParamObj(i) != nil; i++ {
		po := fc.ParamObj(i)
		sl, isSl := po.Type().Underlying().(*types.Slice)
		if !isSl {
			continue
		}
		if b, isB := sl.Elem().Underlying().(*types.Basic); isB && b.Kind() == types.Uint8 {
			n++
			ok := lenTested(func(e ast.Expr) bool { return objOf(info, e) == po }, nil)
			r.Check(ok, rule, prefix+":length-tested:"+fmt.Sprintf("param#%d:%s", i, po.Type().String()), p.posStr(fc.Body.Pos()), "the key's own length is compared with the method's key length and a mismatch is an error", "the key parameter "+po.Name()+" is not length-checked against the method's key length (mismatch must return an error)")
			continue
		}
		if in, isIn := sl.Elem().Underlying().(*types.Slice); isIn {
			if b, isB := in.Elem().Underlying().(*types.Basic); !isB || b.Kind() != types.Uint8 {
				continue
			}
			n++
			ok := false
			for _, h := range fc.G.V {
				if h.Kind != VRange {
					continue
				}
				rs := h.Stmt.(*ast.RangeStmt)
				if objOf(info, rs.X) != po {
					continue
				}
				var ko, vo types.Object
				if rs.Key != nil {
					ko = objOf(info, rs.Key)
				}
				if rs.Value != nil {
					vo = objOf(info, rs.Value)
				}
				var isElem func(e ast.Expr) bool
				isElem = func(e ast.Expr) bool {
					e = ast.Unparen(e)
					if o := objOf(info, e); o != nil && o == vo {
						return true
					}
					if o := objOf(info, e); o != nil && o != po {
						// a local that holds the element
						if rhs, _, _, sole := fc.SoleDefRHS(o); sole && ast.Unparen(rhs) != e {
							return isElem(rhs)
						}
					}
					if ix, isIx := e.(*ast.IndexExpr); isIx && objOf(info, ix.X) == po && ko != nil && objOf(info, ix.Index) == ko {
						return true
					}
					return false
				}
				inBody := func(id int) bool {
					nd := fc.G.V[id].Node
					return nd != nil && rs.Body.Pos() <= nd.Pos() && nd.End() <= rs.Body.End()
				}
				if lenTested(isElem, inBody) {
					ok = true
				}
			}
			if !ok {
				// slices.IndexFunc / slices.ContainsFunc over the list with a predicate that compares
				// len(its parameter) with the expected length, and the "found" outcome an error
				for _, cs := range fc.AllCalls() {
					if cs.Fn == nil || cs.Fn.Pkg() == nil || cs.Fn.Pkg().Path() != "slices" || (cs.Fn.Name() != "IndexFunc" && cs.Fn.Name() != "ContainsFunc") || len(cs.Call.Args) != 2 {
						continue
					}
					if objOf(info, cs.Call.Args[0]) != po {
						continue
					}
					lit, isLit := ast.Unparen(cs.Call.Args[1]).(*ast.FuncLit)
					if !isLit || len(lit.Type.Params.List) != 1 || len(lit.Type.Params.List[0].Names) != 1 || len(lit.Body.List) != 1 {
						continue
					}
					elem := info.Defs[lit.Type.Params.List[0].Names[0]]
					rs, isRet := lit.Body.List[0].(*ast.ReturnStmt)
					if !isRet || len(rs.Results) != 1 {
						continue
					}
					be, isBin := ast.Unparen(rs.Results[0]).(*ast.BinaryExpr)
					if !isBin || be.Op != token.NEQ {
						continue
					}
					predOK := false
					for _, pr := range [][2]ast.Expr{{be.X, be.Y}, {be.Y, be.X}} {
						if c, isC := ast.Unparen(pr[0]).(*ast.CallExpr); isC && exprStr(c.Fun) == "len" && len(c.Args) == 1 && objOf(info, c.Args[0]) == elem && objOf(info, pr[1]) == want {
							predOK = true
						}
					}
					if !predOK {
						continue
					}
					// the found outcome is an error: IndexFunc result tested >= 0 / != -1, ContainsFunc tested true
					var found []Edge
					if cs.Fn.Name() == "ContainsFunc" {
						found = cs.ResultEdges(0, WantTrue)
					} else if ro := cs.ResultVar(0); ro != nil {
						found = append(fc.TestEdgesCmp(ro, token.GEQ, 0), fc.TestEdgesCmp(ro, token.NEQ, -1)...)
						found = append(found, fc.TestEdgesCmp(ro, token.GTR, -1)...)
					}
					good := len(found) > 0
					for _, e := range found {
						if !errorOnlyFrom(fc, e) {
							good = false
						}
					}
					if good {
						ok = true
					}
				}
			}
			r.Check(ok, rule, prefix+":every-element-length-tested:"+fmt.Sprintf("param#%d:%s", i, po.Type().String()), p.posStr(fc.Body.Pos()), "each element of the key list has its own length compared with the method's key length inside a loop over the list", "the elements of the key list "+po.Name()+" are not each length-checked (the loop over the list must compare len(element) with the method's key length and return an error on mismatch): identity keys of the wrong length are accepted at load and select the wrong AES variant or panic on the first connection")
		}
	}
	r.Check(n >= 2, rule, prefix+":key-parameters", p.posStr(fc.Body.Pos()), "user key and key list parameters found", fmt.Sprintf("only %d key parameters found in CheckPSKLength", n))
}

// c18ClientAddresses: a proxy client is built only with the server address its transport needs. The
// TCP client dials cc.TCPAddress, the UDP client resolves cc.UDPAddress on every new session
// (ResolveIPPort / IPPort panic on the zero Addr), so checkAddresses must not let a configuration
// through whose enabled transport has no valid address. Decided as a path property of checkAddresses:
// for X in {TCP, UDP}, no path from the entry to a nil return avoids all of (a) the valid edge of a test
// of cc.<X>Address.IsValid(), (b) the false edge of a test of cc.Enable<X>, (c) an assignment of
// cc.<X>Address that lies behind the valid edge of a test of its right-hand side's IsValid(), (d) the
// true edge of Protocol == "direct" (the direct client has no server).
func c18ClientAddresses(p *Prog, r *Report, rule string) {
	fc := p.Inlined(p.Func("service", "ClientConfig", "checkAddresses"))
	info := fc.Info()
	recv := fc.RecvObj()
	prefix := "service.(*ClientConfig).checkAddresses"
	isValidOf := func(e ast.Expr) string { // "<Field>" when e is recv.<Field>.IsValid()
		c, ok := ast.Unparen(fc.Resolve(e)).(*ast.CallExpr)
		if !ok || len(c.Args) != 0 {
			return ""
		}
		sel, ok := ast.Unparen(c.Fun).(*ast.SelectorExpr)
		if !ok || sel.Sel.Name != "IsValid" {
			return ""
		}
		root, path, okp := pathOf(info, sel.X)
		if !okp || root != recv {
			return ""
		}
		return strings.TrimPrefix(path, ".")
	}
	fieldOf := func(e ast.Expr) string {
		root, path, okp := pathOf(info, e)
		if !okp || root != recv {
			return ""
		}
		return strings.TrimPrefix(path, ".")
	}
	validEdges := map[string][]Edge{}
	disabledEdges := map[string][]Edge{}
	var directEdges []Edge
	for _, v := range fc.G.V {
		if v.Kind == VCond {
			if f := isValidOf(v.Node.(ast.Expr)); f != "" {
				for _, e := range v.Succs {
					if e.Label == LTrue {
						validEdges[f] = append(validEdges[f], e)
					}
				}
			}
			if f := fieldOf(v.Node.(ast.Expr)); f != "" {
				for _, e := range v.Succs {
					if e.Label == LFalse {
						disabledEdges[f] = append(disabledEdges[f], e)
					}
				}
			}
		}
		if x, y, op, ok := condParts(v); ok && y != nil && (op == token.EQL || op == token.NEQ) {
			for _, pr := range [][2]ast.Expr{{x, y}, {y, x}} {
				if fieldOf(pr[0]) == "Protocol" {
					if tv, okc := info.Types[pr[1]]; okc && tv.Value != nil && tv.Value.String() == `"direct"` {
						for _, e := range v.Succs {
							if (op == token.EQL && e.Label == LTrue) || (op == token.NEQ && e.Label == LFalse) {
								directEdges = append(directEdges, e)
							}
						}
					}
				}
			}
		}
	}
	for _, x := range []string{"TCP", "UDP"} {
		addr, enable := x+"Address", "Enable"+x
		// (c) assignments cc.<X>Address = cc.<F> behind F's valid edge
		stopV := map[int]bool{}
		for _, v := range fc.G.V {
			as, ok := v.Node.(*ast.AssignStmt)
			if !ok || v.Kind != VStmt || len(as.Lhs) != len(as.Rhs) {
				continue
			}
			for i, l := range as.Lhs {
				if fieldOf(l) != addr {
					continue
				}
				if f := fieldOf(as.Rhs[i]); f != "" && len(validEdges[f]) > 0 && fc.G.EdgeDominates(validEdges[f], v.ID) {
					stopV[v.ID] = true
				}
			}
		}
		stopE := map[Edge]bool{}
		for _, e := range validEdges[addr] {
			stopE[e] = true
		}
		for _, e := range disabledEdges[enable] {
			stopE[e] = true
		}
		for _, e := range directEdges {
			stopE[e] = true
		}
		reach := fc.G.Reach([]int{fc.G.Entry}, func(u *Vertex) bool { return stopV[u.ID] }, func(e Edge) bool { return stopE[e] })
		bad := ""
		for _, ret := range fc.Returns() {
			if reach[ret] && !stopV[ret] && fc.ErrAtReturn(ret) != ErrNonNil {
				bad = p.posStr(fc.G.V[ret].Node.Pos())
			}
		}
		r.Check(bad == "" && len(validEdges[addr]) > 0 && len(disabledEdges[enable]) > 0, rule, prefix+":enabled-transport-has-valid-address:"+x, p.posStr(fc.Body.Pos()),
			"every accepted configuration with "+enable+" has a valid "+addr+" (or takes it from a valid endpoint, or is the direct client)",
			"checkAddresses can accept (return at "+bad+") a configuration with "+enable+" set whose "+addr+" was never found valid: the "+x+" client is built on the zero address and the first connection / session panics in conn.Addr ("+fmt.Sprintf("%d validity tests, %d enable tests found", len(validEdges[addr]), len(disabledEdges[enable]))+")")
	}
	// the check runs before anything is built from the addresses
	ci := p.Func("service", "ClientConfig", "Initialize")
	var chk *CallSite
	for _, cs := range ci.AllCalls() {
		if cs.Fn != nil && cs.Fn.Name() == "checkAddresses" {
			c := cs
			chk = &c
		}
	}
	okOrder := chk != nil
	if chk != nil {
		for _, v := range ci.G.V {
			if v.Node == nil || v.ID == chk.V {
				continue
			}
			uses := false
			inspectNoLit(v.Node, func(n ast.Node) bool {
				if sel, ok := n.(*ast.SelectorExpr); ok && (sel.Sel.Name == "TCPAddress" || sel.Sel.Name == "UDPAddress") && objOf(ci.Info(), sel.X) == ci.RecvObj() {
					uses = true
				}
				return true
			})
			if uses && !chk.SuccessGuards(v.ID) {
				okOrder = false
			}
		}
	}
	r.Check(okOrder, rule, "service.(*ClientConfig).Initialize:addresses-checked-before-use", p.posStr(ci.Body.Pos()), "every use of the server addresses in Initialize lies behind the success of checkAddresses", "Initialize uses TCPAddress/UDPAddress on a path that did not pass checkAddresses successfully")
}

// c18FilterSize: the sliding window filter's ring is sized 1 << bits.Len64(size+63) bits. A configured
// size of 2^63-63 or more makes that shift 64 — a ZERO-length ring that panics (index out of range) on the
// first authenticated UDP packet; sizes above 2^54 panic in makeslice when the first session is created.
// The option is a plain uint64 in the configuration, so the loader must refuse sizes the constructor cannot
// honour: every call from package service into package ss2022 that is given a configured uint64 option (the filter size is the only one) lies behind the
// "not greater than K" edge of a comparison of that field with a constant K <= 2^40.
func c18FilterSize(p *Prog, r *Report, rule string) {
	pkg := p.Pkg("service")
	n := 0
	p.AllFuncs(pkg, func(top *FuncCtx) {
		fc := p.Inlined(top)
		info := fc.Info()
		for _, cs := range fc.AllCalls() {
			if cs.Fn == nil || cs.Fn.Pkg() == nil || !strings.HasSuffix(cs.Fn.Pkg().Path(), "/ss2022") {
				continue
			}
			sig := cs.Fn.Type().(*types.Signature)
			for i := 0; i < sig.Params().Len() && i < len(cs.Call.Args); i++ {
				if b, ok := sig.Params().At(i).Type().Underlying().(*types.Basic); !ok || b.Kind() != types.Uint64 {
					continue
				}
				arg := fc.Resolve(cs.Call.Args[i])
				f := fieldOrVar(info, arg)
				if f == nil || !isField(f) {
					continue
				}
				n++
				var bounded []Edge
				var bound int64 = -1
				for _, v := range fc.G.V {
					x, y, op, ok := condPartsCmp(v)
					if !ok {
						continue
					}
					if fieldOrVar(info, fc.Resolve(x)) != f {
						continue
					}
					k, isC := constInt(info, y)
					if !isC || k < 0 || k > 1<<40 {
						continue
					}
					okLabel := -1
					switch op {
					case token.GTR, token.GEQ:
						okLabel = LFalse
					case token.LEQ, token.LSS:
						okLabel = LTrue
					}
					for _, e := range v.Succs {
						if e.Label == okLabel {
							bounded = append(bounded, e)
							bound = k
						}
					}
				}
				r.Check(len(bounded) > 0 && fc.G.EdgeDominates(bounded, cs.V), rule, fmt.Sprintf("%s:filter-size-bounded:%s", top.Name, cs.Fn.Name()), cs.Pos(), fmt.Sprintf("the configured size reaches %s only when it is at most %d", cs.Fn.Name(), bound),
					"the configured sliding window filter size ("+exprStr(cs.Call.Args[i])+", any uint64) reaches "+cs.Fn.FullName()+" without an upper bound: a size of 2^63-63 or more yields a zero-length ring (1 << 64) and the first authenticated UDP packet panics with index out of range; sizes above 2^54 panic in makeslice when the first session is created")
			}
		}
	})
	r.Check(n >= 2, rule, "service:filter-size-consumers", "", "server and client consumers of the configured filter size found", fmt.Sprintf("only %d consumers of the configured sliding window filter size found", n))
}

// condPartsCmp views a condition vertex as an ordered comparison x op y (<, <=, >, >=).
func condPartsCmp(v *Vertex) (x, y ast.Expr, op token.Token, ok bool) {
	if v.Kind != VCond {
		return nil, nil, 0, false
	}
	b, isBin := ast.Unparen(v.Node.(ast.Expr)).(*ast.BinaryExpr)
	if !isBin {
		return nil, nil, 0, false
	}
	switch b.Op {
	case token.GTR, token.GEQ, token.LSS, token.LEQ:
		return b.X, b.Y, b.Op, true
	}
	return nil, nil, 0, false
}
