package main

// facts.go: analyses over a FuncCtx graph: call sites, definitions, reaching definitions,
// condition edges ("err == nil holds on this edge"), guarded-by queries.

import (
	"fmt"
	"go/ast"
	"go/constant"
	"go/token"
	"go/types"
)

type CallSite struct {
	FC   *FuncCtx
	V    int
	Call *ast.CallExpr
	Fn   *types.Func // nil for calls through function values / builtins / conversions
}

func (cs CallSite) Pos() string { return cs.FC.Prog.posStr(cs.Call.Pos()) }

// inspectNoLit walks n without entering function literals.
func inspectNoLit(n ast.Node, f func(ast.Node) bool) {
	ast.Inspect(n, func(x ast.Node) bool {
		if x == nil {
			return false
		}
		if _, ok := x.(*ast.FuncLit); ok {
			return false
		}
		return f(x)
	})
}

// vertexNodes returns the AST nodes evaluated at vertex v.
func vertexNodes(v *Vertex) []ast.Node {
	switch v.Kind {
	case VStmt, VCond:
		return []ast.Node{v.Node}
	case VSwitchCase:
		return []ast.Node{v.Node}
	case VRange:
		return nil // s.X is its own vertex
	}
	return nil
}

// AllCalls returns every call expression evaluated in fc's own body (not in literals), in vertex order.
func (fc *FuncCtx) AllCalls() []CallSite {
	var out []CallSite
	info := fc.Info()
	for _, v := range fc.G.V {
		for _, n := range vertexNodes(v) {
			inspectNoLit(n, func(x ast.Node) bool {
				if c, ok := x.(*ast.CallExpr); ok {
					out = append(out, CallSite{FC: fc, V: v.ID, Call: c, Fn: Callee(info, c)})
				}
				return true
			})
		}
	}
	return out
}

// CallsTo returns the call sites in fc whose resolved callee satisfies match.
func (fc *FuncCtx) CallsTo(match func(fn *types.Func) bool) []CallSite {
	var out []CallSite
	for _, cs := range fc.AllCalls() {
		if cs.Fn != nil && match(cs.Fn) {
			out = append(out, cs)
		}
	}
	return out
}

func isFn(pkgPath, recv, name string) func(fn *types.Func) bool {
	return func(fn *types.Func) bool { return funcIs(fn, pkgPath, recv, name) }
}

// objOf returns the object an identifier expression denotes (through parens), or nil.
func objOf(info *types.Info, e ast.Expr) types.Object {
	id, ok := ast.Unparen(e).(*ast.Ident)
	if !ok {
		return nil
	}
	if o := info.Uses[id]; o != nil {
		return o
	}
	return info.Defs[id]
}

// pathOf returns a canonical access path for ident/selector chains rooted at a variable:
// "<rootobj>.f.g". Pointer dereferences and parens are transparent. ok=false for anything else.
func pathOf(info *types.Info, e ast.Expr) (root types.Object, path string, ok bool) {
	switch x := ast.Unparen(e).(type) {
	case *ast.Ident:
		o := objOf(info, x)
		if o == nil {
			return nil, "", false
		}
		if _, isVar := o.(*types.Var); !isVar {
			return nil, "", false
		}
		return o, "", true
	case *ast.SelectorExpr:
		if sel, isSel := info.Selections[x]; isSel && sel.Kind() == types.FieldVal {
			r, p, ok := pathOf(info, x.X)
			if !ok {
				return nil, "", false
			}
			return r, p + "." + x.Sel.Name, true
		}
		return nil, "", false
	case *ast.StarExpr:
		return pathOf(info, x.X)
	case *ast.UnaryExpr:
		if x.Op == token.AND {
			return pathOf(info, x.X)
		}
	}
	return nil, "", false
}

func pathKey(info *types.Info, e ast.Expr) string {
	r, p, ok := pathOf(info, e)
	if !ok {
		return ""
	}
	return fmt.Sprintf("%p%s", r, p)
}

// samePath reports whether two expressions denote the same variable/field path.
func samePath(info *types.Info, a, b ast.Expr) bool {
	ka, kb := pathKey(info, a), pathKey(info, b)
	return ka != "" && ka == kb
}

// Defs returns the vertices that (re)define obj in fc's own body: assignments, :=, var
// specs, ++/--, range key/value, and the comm statement of a select receive. Stores
// through closures are not included (see LitAssigns).
func (fc *FuncCtx) Defs(obj types.Object) []int {
	info := fc.Info()
	var out []int
	for _, v := range fc.G.V {
		def := false
		switch n := v.Node.(type) {
		case *ast.AssignStmt:
			if v.Kind != VStmt {
				break
			}
			for _, l := range n.Lhs {
				if objOf(info, l) == obj {
					def = true
				}
			}
		case *ast.ValueSpec:
			for _, id := range n.Names {
				if info.Defs[id] == obj {
					def = true
				}
			}
		case *ast.IncDecStmt:
			if objOf(info, n.X) == obj {
				def = true
			}
		}
		if v.Kind == VRange {
			n := v.Stmt.(*ast.RangeStmt)
			if n.Key != nil && objOf(info, n.Key) == obj {
				def = true
			}
			if n.Value != nil && objOf(info, n.Value) == obj {
				def = true
			}
		}
		if def {
			out = append(out, v.ID)
		}
	}
	return out
}

// LitAssigns reports whether any function literal inside fc assigns obj or takes its address
// (in which case flow-sensitive facts about obj in fc are unreliable unless the literal is
// known to run only at exit, i.e. is deferred).
func (fc *FuncCtx) LitAssigns(obj types.Object) (lits []*ast.FuncLit) {
	info := fc.Info()
	for _, lit := range fc.Lits() {
		found := false
		ast.Inspect(lit.Body, func(n ast.Node) bool {
			switch x := n.(type) {
			case *ast.AssignStmt:
				for _, l := range x.Lhs {
					if objOf(info, l) == obj {
						found = true
					}
				}
			case *ast.IncDecStmt:
				if objOf(info, x.X) == obj {
					found = true
				}
			case *ast.UnaryExpr:
				if x.Op == token.AND && objOf(info, x.X) == obj {
					found = true
				}
			}
			return true
		})
		if found {
			lits = append(lits, lit)
		}
	}
	return
}

// ReachingDefs returns the def vertices of obj that may reach vertex at (value on entry to
// at); entry (g.Entry) is included when the initial value may reach.
func (fc *FuncCtx) ReachingDefs(at int, obj types.Object) []int {
	g := fc.G
	defs := fc.Defs(obj)
	isDef := map[int]bool{}
	for _, d := range defs {
		isDef[d] = true
	}
	var out []int
	// one search from the entry that carries "the last definition crossed" next to the flag
	// values: a definition reaches only along a path the function's own flag tests allow from
	// the entry on (an error set before the definition still decides the test after it)
	gh := &ghostT{eff: map[int]int64{}, at: at, vals: map[int64]bool{}}
	for i, d := range defs {
		gh.eff[d] = flagIntBase + int64(i)
	}
	g.reachGhost([]int{g.Entry}, nil, nil, true, gh)
	if !gh.failed {
		if gh.vals[flagUnknown] {
			out = append(out, g.Entry)
		}
		for i, d := range defs {
			if gh.vals[flagIntBase+int64(i)] {
				out = append(out, d)
			}
		}
		return out
	}
	if reachesWithoutDef(g, g.Entry, at, isDef) {
		out = append(out, g.Entry)
	}
	for _, d := range defs {
		if reachesWithoutDef(g, d, at, isDef) {
			out = append(out, d)
		}
	}
	return out
}

// reachesWithoutDef: is there a path from (after) `from` to `at` whose interior vertices are not defs?
func reachesWithoutDef(g *Graph, from, at int, isDef map[int]bool) bool {
	// flag-sensitive (see Graph.Reach): a definition on a path that the function's own flag
	// tests exclude does not reach
	r := g.ReachAfter(from, func(v *Vertex) bool { return isDef[v.ID] && v.ID != at }, nil)
	return r[at]
}

// PassesBefore: along every path from the entry that the function's own flag tests allow, once a
// vertex of from has been crossed a vertex of through is crossed before the path arrives at to.
func (fc *FuncCtx) PassesBefore(from, through []int, to int) bool {
	gh := &ghostT{eff: map[int]int64{}, at: to, vals: map[int64]bool{}}
	for _, v := range from {
		gh.eff[v] = flagIntBase + 1
	}
	for _, v := range through {
		gh.eff[v] = flagIntBase + 2
	}
	fc.G.reachGhost([]int{fc.G.Entry}, nil, nil, true, gh)
	return !gh.failed && !gh.vals[flagIntBase+1]
}

// SoleDef reports whether def is the only definition of obj reaching vertex at.
func (fc *FuncCtx) SoleDef(at int, obj types.Object, def int) bool {
	rd := fc.ReachingDefs(at, obj)
	return len(rd) == 1 && rd[0] == def
}

type Want int

const (
	WantNil Want = iota
	WantNonNil
	WantTrue
	WantFalse
)

// condParts views a condition vertex as "x op y" (for == and !=) or as a bare expression.
func condParts(v *Vertex) (x, y ast.Expr, op token.Token, ok bool) {
	switch v.Kind {
	case VSwitchCase:
		return v.Tag, v.Node.(ast.Expr), token.EQL, true
	case VCond:
		if b, isBin := ast.Unparen(v.Node.(ast.Expr)).(*ast.BinaryExpr); isBin {
			return b.X, b.Y, b.Op, true
		}
		return v.Node.(ast.Expr), nil, token.ILLEGAL, true
	}
	return nil, nil, token.ILLEGAL, false
}

func isNilExpr(info *types.Info, e ast.Expr) bool {
	if e == nil {
		return false
	}
	tv, ok := info.Types[ast.Unparen(e)]
	return ok && tv.IsNil()
}

// TestEdges returns the edges on which the expression identified by same(e) is known to
// satisfy want. It recognises: e == nil, e != nil, nil == e, bare e (bool), switch e { case nil },
// switch { case e == nil }. Negations are handled by the graph's decomposition.
// Each returned edge comes with its condition vertex.
func (fc *FuncCtx) TestEdges(same func(e ast.Expr) bool, want Want) []Edge {
	info := fc.Info()
	var out []Edge
	for _, v := range fc.G.V {
		x, y, op, ok := condParts(v)
		if !ok {
			continue
		}
		var holdsOn int = -1 // label on which want holds
		switch want {
		case WantNil, WantNonNil:
			if op != token.EQL && op != token.NEQ {
				continue
			}
			var other ast.Expr
			if same(x) {
				other = y
			} else if y != nil && same(y) {
				other = x
			} else {
				continue
			}
			if !isNilExpr(info, other) {
				continue
			}
			eqNilLabel := LTrue
			if op == token.NEQ {
				eqNilLabel = LFalse
			}
			if want == WantNil {
				holdsOn = eqNilLabel
			} else {
				holdsOn = 1 - eqNilLabel
			}
		case WantTrue, WantFalse:
			if op == token.ILLEGAL {
				if !same(x) {
					continue
				}
				if want == WantTrue {
					holdsOn = LTrue
				} else {
					holdsOn = LFalse
				}
			} else if op == token.EQL || op == token.NEQ {
				// e == true / e == false forms
				var other ast.Expr
				if same(x) {
					other = y
				} else if same(y) {
					other = x
				} else {
					continue
				}
				tv, okc := info.Types[ast.Unparen(other)]
				if !okc || tv.Value == nil || tv.Value.Kind() != constant.Bool {
					continue
				}
				isTrueConst := tv.Value.String() == "true"
				lab := LTrue
				if op == token.NEQ {
					lab = LFalse
				}
				// on label lab, e == const
				if (want == WantTrue) == isTrueConst {
					holdsOn = lab
				} else {
					holdsOn = 1 - lab
				}
			} else {
				continue
			}
		}
		for _, e := range v.Succs {
			if e.Label == holdsOn {
				out = append(out, e)
			}
		}
	}
	return out
}

// ResultVar returns the variable object receiving result i (negative: from the end) of the
// call at cs when the call is the sole right-hand side of an assignment or var spec.
func (cs CallSite) ResultVar(i int) types.Object {
	info := cs.FC.Info()
	v := cs.FC.G.V[cs.V]
	var lhs []ast.Expr
	switch n := v.Node.(type) {
	case *ast.AssignStmt:
		if len(n.Rhs) != 1 || ast.Unparen(n.Rhs[0]) != cs.Call {
			return nil
		}
		lhs = n.Lhs
	case *ast.ValueSpec:
		if len(n.Values) != 1 || ast.Unparen(n.Values[0]) != cs.Call {
			return nil
		}
		for _, id := range n.Names {
			lhs = append(lhs, id)
		}
	default:
		return nil
	}
	if i < 0 {
		i = len(lhs) + i
	}
	if i < 0 || i >= len(lhs) {
		return nil
	}
	return objOf(info, lhs[i])
}

// ResultEdges returns the edges on which result i of the call is known to satisfy want:
// either the call is itself (part of) an atomic condition, or its result was assigned to
// a variable that is tested while the call is that variable's only reaching definition.
func (cs CallSite) ResultEdges(i int, want Want) []Edge {
	fc := cs.FC
	// direct: the call is the condition / compared to nil in the condition
	direct := fc.TestEdges(func(e ast.Expr) bool { return ast.Unparen(e) == cs.Call }, want)
	obj := cs.ResultVar(i)
	if obj == nil {
		return direct
	}
	if len(fc.nonDeferredLitAssigns(obj)) > 0 {
		return direct
	}
	out := direct
	for _, e := range fc.TestEdges(func(x ast.Expr) bool { return objOf(fc.Info(), x) == obj }, want) {
		if fc.SoleDef(e.From, obj, cs.V) {
			out = append(out, e)
		}
	}
	return out
}

// nonDeferredLitAssigns returns literals assigning obj that are not `defer func(){...}()` bodies.
func (fc *FuncCtx) nonDeferredLitAssigns(obj types.Object) []*ast.FuncLit {
	var out []*ast.FuncLit
	for _, lit := range fc.LitAssigns(obj) {
		if !fc.IsDeferredLit(lit) {
			out = append(out, lit)
		}
	}
	return out
}

// IsDeferredLit reports whether lit is the function of a `defer func(){...}()` statement in fc.
func (fc *FuncCtx) IsDeferredLit(lit *ast.FuncLit) bool {
	for _, d := range fc.G.Defers {
		ds := fc.G.V[d].Node.(*ast.DeferStmt)
		if ast.Unparen(ds.Call.Fun) == lit {
			return true
		}
	}
	return false
}

// GuardedBy reports whether every path from entry to target executes vertex from and, after
// its last execution, crosses one of edges before reaching target.
func (fc *FuncCtx) GuardedBy(from int, edges []Edge, target int) bool {
	g := fc.G
	if from == target {
		return false
	}
	if !g.Dominates([]int{from}, target) {
		return false
	}
	es := map[Edge]bool{}
	for _, e := range edges {
		es[e] = true
	}
	r := g.ReachAfter(from, func(v *Vertex) bool { return v.ID == from }, func(e Edge) bool { return es[e] })
	return !r[target]
}

// SuccessGuards reports whether target is only reachable after the call at cs returned with
// its last result (error) nil.
func (cs CallSite) SuccessGuards(target int) bool {
	fc := cs.FC
	if fc.GuardedBy(cs.V, cs.ResultEdges(-1, WantNil), target) {
		return true
	}
	// The error variable may have other definitions that reach the same test (several failure
	// sites assigning one variable that is tested once, as after expanding a helper whose last
	// statement is `return f()`). Starting from the call, a test of the variable speaks about
	// this call's result as long as no other definition was passed on the way: explore from the
	// call with the variable's nil edges closed, stop at other definitions, and require that
	// the target is reachable neither directly nor from any such definition met on the way.
	obj := cs.ResultVar(-1)
	if obj == nil || cs.V == target || len(fc.nonDeferredLitAssigns(obj)) > 0 || !fc.G.Dominates([]int{cs.V}, target) {
		return false
	}
	tests := map[Edge]bool{}
	for _, e := range fc.TestEdges(func(x ast.Expr) bool { return objOf(fc.Info(), x) == obj }, WantNil) {
		tests[e] = true
	}
	if len(tests) == 0 {
		return false
	}
	other := map[int]bool{}
	for _, d := range fc.Defs(obj) {
		if d != cs.V {
			other[d] = true
		}
	}
	r1 := fc.G.ReachAfter(cs.V, func(v *Vertex) bool { return v.ID == cs.V || other[v.ID] }, func(e Edge) bool { return tests[e] })
	if r1[target] {
		return false
	}
	r1b := fc.G.ReachAfter(cs.V, func(v *Vertex) bool { return v.ID == cs.V }, func(e Edge) bool { return tests[e] })
	for d := range other {
		if r1b[d] {
			if d == target || fc.G.ReachAfter(d, func(v *Vertex) bool { return v.ID == cs.V }, nil)[target] {
				return false
			}
		}
	}
	return true
}

// Between reports whether some path from (after) vertex a reaches b without passing a vertex in avoid.
func (fc *FuncCtx) PathAvoiding(a, b int, avoid func(v *Vertex) bool) bool {
	r := fc.G.ReachAfter(a, func(v *Vertex) bool { return v.ID != b && avoid != nil && avoid(v) }, nil)
	return r[b]
}

// VertexOfNode finds the vertex evaluating node n.
func (fc *FuncCtx) VertexOfNode(n ast.Node) int { return fc.G.VertexOf(n) }

// Returns lists the return-statement vertices of fc.
func (fc *FuncCtx) Returns() []int {
	var out []int
	for _, v := range fc.G.V {
		if v.Kind == VStmt {
			if _, ok := v.Node.(*ast.ReturnStmt); ok {
				out = append(out, v.ID)
			}
		}
	}
	return out
}

// ExitPreds returns the vertices with an edge to Exit (returns and fall-off ends).
func (fc *FuncCtx) ExitPreds() []int {
	var out []int
	for _, e := range fc.G.V[fc.G.Exit].Preds {
		out = append(out, e.From)
	}
	return out
}

// usesObj reports whether node n mentions obj (not entering literals unless enterLits).
func usesObj(info *types.Info, n ast.Node, obj types.Object, enterLits bool) bool {
	found := false
	ast.Inspect(n, func(x ast.Node) bool {
		if found || x == nil {
			return false
		}
		if _, ok := x.(*ast.FuncLit); ok && !enterLits {
			return false
		}
		if id, ok := x.(*ast.Ident); ok && (info.Uses[id] == obj || info.Defs[id] == obj) {
			found = true
		}
		return true
	})
	return found
}

// recvObj returns the receiver variable of a method declaration.
func (fc *FuncCtx) RecvObj() types.Object {
	if fc.Decl == nil || fc.Decl.Recv == nil || len(fc.Decl.Recv.List) == 0 || len(fc.Decl.Recv.List[0].Names) == 0 {
		return nil
	}
	return fc.Info().Defs[fc.Decl.Recv.List[0].Names[0]]
}

// ParamObj returns the i-th parameter object (flattened).
func (fc *FuncCtx) ParamObj(i int) types.Object {
	var ft *ast.FuncType
	if fc.Decl != nil {
		ft = fc.Decl.Type
	} else {
		ft = fc.Lit.Type
	}
	k := 0
	for _, f := range ft.Params.List {
		for _, n := range f.Names {
			if k == i {
				return fc.Info().Defs[n]
			}
			k++
		}
	}
	return nil
}

// ResultObj returns the i-th named result object.
func (fc *FuncCtx) ResultObj(i int) types.Object {
	var ft *ast.FuncType
	if fc.Decl != nil {
		ft = fc.Decl.Type
	} else {
		ft = fc.Lit.Type
	}
	if ft.Results == nil {
		return nil
	}
	k := 0
	for _, f := range ft.Results.List {
		for _, n := range f.Names {
			if k == i {
				return fc.Info().Defs[n]
			}
			k++
		}
	}
	return nil
}

func ptrStr(o types.Object) string { return fmt.Sprintf("%p", o) }

// EqConstEdges returns the edges on which the expression identified by same(e) is known to equal
// the integer constant k, whatever the syntactic shape of the test: `switch e { case k: }`,
// `e == k` (true edge), `e != k` (false edge), either operand order.
func (fc *FuncCtx) EqConstEdges(same func(e ast.Expr) bool, k int64) []Edge {
	info := fc.Info()
	var out []Edge
	for _, v := range fc.G.V {
		x, y, op, ok := condParts(v)
		if !ok || y == nil || (op != token.EQL && op != token.NEQ) {
			continue
		}
		var other ast.Expr
		switch {
		case same(x):
			other = y
		case same(y):
			other = x
		default:
			continue
		}
		if c, isC := constInt(info, other); !isC || c != k {
			continue
		}
		lab := LTrue
		if op == token.NEQ {
			lab = LFalse
		}
		for _, e := range v.Succs {
			if e.Label == lab {
				out = append(out, e)
			}
		}
	}
	return out
}

// IsCopyOf reports whether e is the variable target or a variable that, where e is evaluated,
// holds a plain copy of it (a helper's result handed back through an assignment).
func (fc *FuncCtx) IsCopyOf(e ast.Expr, target types.Object) bool {
	o := objOf(fc.Info(), e)
	if o == nil || target == nil {
		return false
	}
	if o == target {
		return true
	}
	at := fc.G.VertexOf(e)
	return at >= 0 && copyOfVar(fc, at, o, target, 0)
}

// EqStrConstEdges returns the edges on which the expression identified by same(e) is known to be
// equal (equal=true) or unequal (equal=false) to the string constant k, for `e == k`, `e != k`
// and `switch e { case k: }` in either operand order.
func (fc *FuncCtx) EqStrConstEdges(same func(e ast.Expr) bool, k string, equal bool) []Edge {
	info := fc.Info()
	var out []Edge
	for _, v := range fc.G.V {
		x, y, op, ok := condParts(v)
		if !ok || y == nil || (op != token.EQL && op != token.NEQ) {
			continue
		}
		var other ast.Expr
		switch {
		case same(x):
			other = y
		case same(y):
			other = x
		default:
			continue
		}
		cv, isC := constOf(info, other)
		if !isC || cv.Kind() != constant.String || constant.StringVal(cv) != k {
			continue
		}
		eqLab := LTrue
		if op == token.NEQ {
			eqLab = LFalse
		}
		for _, e := range v.Succs {
			if (e.Label == eqLab) == equal && (e.Label == LTrue || e.Label == LFalse) {
				out = append(out, e)
			}
		}
	}
	return out
}
