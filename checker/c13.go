package main

import (
	"fmt"
	"go/ast"
	"go/token"
	"go/types"
	"strings"
)

func init() {
	register(&PropCheck{ID: "C13", AnchorsInlined: true, Pkgs: []string{"./service", "./netio", "./stats", "./httpproxy", "./socks5", "./ss2022"}, Run: runC13})
}

func runC13(p *Prog, r *Report) {
	r.Explanation = "Structural necessary conditions of 'the TCP relay connects clients to the routed destination and mirrors half-closes': the pending connection is proceeded at most once and aborted only while no success has been signalled, with the dial result of the very failure; routing and dialling use the request's own address, user and payload, the payload being replaced only by the bytes of one bounded read in the wait branch; the read deadline is cleared before continuing; the byte counts handed to statistics are the copy results in the right roles plus the initial payload once; each copy direction is unconditionally followed by CloseWrite on its destination and both are awaited; every exit closes what was opened."
	r.NotDecided = []string{"timing around the initial-payload wait", "byte equality of relayed data", "behaviour of the individual protocol PendingConn implementations (C07)"}
	r.Assumptions = []string{"PendingConn.Proceed returns a non-nil connection when its error is nil", "io.Copy returns after the source reports EOF or an error"}
	c13R1(p, r)
	c13R2(p, r)
	c13R3(p, r)
	c13R4(p, r)
	c13R5(p, r)
	// R6: the connections the relay copies between deliver what their handshake read ahead
	// (shared analysis with C07-R4: the client-side wrapper is what BidirectionalCopy reads from)
	r.Rule("C13-R6", "no relayed byte is skipped by a connection wrapper: a wrapper that pairs a connection with the bufio.Reader of its handshake reads the inner connection directly (Read, WriteTo — also through a type assertion) only when the reader has nothing buffered")
	nw := wrapperInnerReads(p, r, "C13-R6")
	r.Count("wrapper_inner_reads_C13", nw)
	r.Floor("C13-R6", 1)
	// R7: "copies both directions until each side finishes" with an SS2022 tunnel on one side goes
	// through the tunnel's ReadFrom / WriteTo loops (io.Copy prefers them): the same accounting rule
	// as C01-R4, registered here because bytes returned together with io.EOF ("EOF with data" in the
	// property's quantifier) are lost by the relay if such a loop acts on the error first
	c01R4as(p, r, "C13-R7")
}

func handleConnCtx(p *Prog) *FuncCtx { return p.Func("service", "TCPRelay", "handleConn") }

func c13R1(p *Prog, r *Report) {
	const rule = "C13-R1"
	r.Rule(rule, "pending-connection typestate in TCPRelay.handleConn: a failed Proceed returns; a second Proceed and any Abort reachable after a Proceed are guarded by the connection variable still being nil (no success signalled yet); Abort receives the dial result derived from the error of the very failure (router error after GetTCPClient, dial error after DialStream); the router-failure edge always aborts; the dial-failure edge aborts unless success was already signalled; the bidirectional copy runs only after DialStream and a Proceed succeeded")
	fc := handleConnCtx(p)
	info := fc.Info()
	var proceeds, aborts []CallSite
	var dial, route, copyc *CallSite
	for _, cs := range fc.AllCalls() {
		if cs.Fn == nil {
			continue
		}
		c := cs
		switch {
		case cs.Fn.Name() == "Proceed" && namedTypeName(recvTypeOf(cs.Fn)) == "PendingConn":
			proceeds = append(proceeds, cs)
		case cs.Fn.Name() == "Abort" && namedTypeName(recvTypeOf(cs.Fn)) == "PendingConn":
			aborts = append(aborts, cs)
		case cs.Fn.Name() == "DialStream":
			dial = &c
		case cs.Fn.Name() == "GetTCPClient":
			route = &c
		case funcIs(cs.Fn, mp("netio"), "", "BidirectionalCopy"):
			copyc = &c
		}
	}
	if len(proceeds) == 0 || len(aborts) == 0 || dial == nil || route == nil || copyc == nil {
		r.Fail(rule, "service.(*TCPRelay).handleConn:shape", p.posStr(fc.Body.Pos()), "expected Proceed, Abort, GetTCPClient, DialStream and BidirectionalCopy calls")
		return
	}
	// the connection variable: assigned from every Proceed, directly or through a helper that
	// hands its result back (after expansion: a local of the helper copied into the variable)
	connVars := map[types.Object]bool{}
	for _, pc := range proceeds {
		if pc.ResultVar(0) == nil {
			r.Fail(rule, "service.(*TCPRelay).handleConn:proceed-result-variable", pc.Pos(), "the connection returned by Proceed is not kept in a variable")
			return
		}
		connVars[pc.ResultVar(0)] = true
	}
	plainCopies := func(into types.Object) (srcs []types.Object, defs []int) {
		for _, d := range fc.Defs(into) {
			as, ok := fc.G.V[d].Node.(*ast.AssignStmt)
			if !ok || len(as.Lhs) != len(as.Rhs) {
				continue
			}
			for i, l := range as.Lhs {
				if objOf(info, l) == into {
					if so := objOf(info, as.Rhs[i]); so != nil && so != into {
						if _, isVar := so.(*types.Var); isVar {
							srcs = append(srcs, so)
							defs = append(defs, d)
						}
					}
				}
			}
		}
		return
	}
	for changed := true; changed; {
		changed = false
		for _, v := range fc.G.V {
			as, ok := v.Node.(*ast.AssignStmt)
			if !ok || v.Kind != VStmt || len(as.Lhs) != len(as.Rhs) {
				continue
			}
			for i, l := range as.Lhs {
				lo, so := objOf(info, l), objOf(info, as.Rhs[i])
				if lo != nil && so != nil && connVars[so] && !connVars[lo] {
					connVars[lo] = true
					changed = true
				}
			}
		}
	}
	var connObj types.Object
	nTested := 0
	for o := range connVars {
		if len(fc.TestEdges(func(e ast.Expr) bool { return objOf(info, e) == o }, WantNil)) > 0 {
			connObj = o
			nTested++
		}
	}
	if nTested != 1 {
		connObj = proceeds[0].ResultVar(0)
		for _, pc := range proceeds {
			if pc.ResultVar(0) != connObj {
				r.Fail(rule, "service.(*TCPRelay).handleConn:proceed-result-variable", pc.Pos(), "the connections returned by the Proceed calls are not kept in one variable")
				return
			}
		}
	}
	for o := range connVars {
		srcs, copyDefs := plainCopies(o)
		for _, d := range fc.Defs(o) {
			okDef := false
			for _, pc := range proceeds {
				if pc.V == d {
					okDef = true
				}
			}
			if vs, isVS := fc.G.V[d].Node.(*ast.ValueSpec); isVS && len(vs.Values) == 0 {
				okDef = true
			}
			for i, cd := range copyDefs {
				if cd == d && connVars[srcs[i]] {
					okDef = true
				}
			}
			r.Check(okDef, rule, "service.(*TCPRelay).handleConn:conn-variable-def:"+exprStr(fc.G.V[d].Node), p.posStr(fc.G.V[d].Node.Pos()), "declared nil or assigned from Proceed", "the connection variable is assigned from something other than Proceed: 'nil means no success signalled' no longer holds")
		}
	}
	// a Proceed whose result lands in a helper's local: that local is copied into the
	// connection variable before anything that depends on the variable's state runs
	for i, pc := range proceeds {
		rv := pc.ResultVar(0)
		if rv == connObj {
			continue
		}
		handover := map[int]bool{}
		for _, d := range fc.Defs(connObj) {
			as, ok := fc.G.V[d].Node.(*ast.AssignStmt)
			if !ok || len(as.Lhs) != len(as.Rhs) {
				continue
			}
			for k, l := range as.Lhs {
				if objOf(info, l) == connObj && fc.IsCopyOf(as.Rhs[k], rv) {
					handover[d] = true
				}
			}
		}
		before := fc.G.ReachAfter(pc.V, func(v *Vertex) bool { return handover[v.ID] }, nil)
		bad := ""
		for _, other := range append(append([]CallSite{}, proceeds...), aborts...) {
			if before[other.V] {
				bad = other.Fn.Name() + " at " + other.Pos() + " can run before the connection variable has received this Proceed's result"
			}
		}
		if before[dial.V] || before[copyc.V] {
			bad = "the relay continues before the connection variable has received this Proceed's result"
		}
		for _, e := range fc.TestEdges(func(e ast.Expr) bool { return objOf(info, e) == connObj }, WantNil) {
			if before[e.From] {
				bad = "the connection variable is tested at " + p.posStr(fc.G.V[e.From].Node.Pos()) + " before it has received this Proceed's result"
			}
		}
		r.Check(bad == "", rule, fmt.Sprintf("service.(*TCPRelay).handleConn:proceed#%d-result-handed-over", i), pc.Pos(), "the helper's result reaches the connection variable before any use of its state", bad)
	}
	nilEdges := fc.TestEdges(func(e ast.Expr) bool { return objOf(info, e) == connObj }, WantNil)
	// failed Proceed returns
	for i, pc := range proceeds {
		bad := ""
		fe := pc.ResultEdges(-1, WantNonNil)
		if len(fe) == 0 {
			bad = "the error of Proceed is not tested"
		}
		for _, e := range fe {
			reach := fc.G.Reach([]int{e.To}, nil, nil)
			for _, other := range append(append([]CallSite{}, proceeds...), aborts...) {
				if reach[other.V] {
					bad = "after a failed Proceed, " + other.Fn.Name() + " is still reachable"
				}
			}
			if reach[dial.V] || reach[copyc.V] {
				bad = "after a failed Proceed the relay continues"
			}
		}
		r.Check(bad == "", rule, fmt.Sprintf("service.(*TCPRelay).handleConn:proceed#%d-failure-returns", i), pc.Pos(), "a failed Proceed ends the handler", bad)
	}
	// second Proceed / Aborts reachable after a Proceed must be nil-guarded
	for i, pc := range proceeds {
		afterOther := false
		for j, q := range proceeds {
			if i != j && fc.G.ReachAfter(q.V, nil, nil)[pc.V] {
				afterOther = true
			}
		}
		if afterOther {
			r.Check(fc.G.EdgeDominates(nilEdges, pc.V), rule, fmt.Sprintf("service.(*TCPRelay).handleConn:proceed#%d-only-if-not-proceeded", i), pc.Pos(), "guarded by the connection still being nil", "Proceed can run twice on one pending connection (the success reply is sent twice)")
		}
	}
	for i, ab := range aborts {
		after := false
		for _, q := range proceeds {
			if fc.G.ReachAfter(q.V, nil, nil)[ab.V] {
				after = true
			}
		}
		if after {
			r.Check(fc.G.EdgeDominates(nilEdges, ab.V), rule, fmt.Sprintf("service.(*TCPRelay).handleConn:abort#%d-only-if-not-proceeded", i), ab.Pos(), "guarded by the connection still being nil", "Abort is reachable after success was signalled with Proceed (initial-payload wait path): the failure reply is written into the established tunnel as if it were data from the destination")
		} else {
			r.OK(rule, fmt.Sprintf("service.(*TCPRelay).handleConn:abort#%d-only-if-not-proceeded", i), ab.Pos(), "not reachable after any Proceed")
		}
		// at most once
		r.Check(!fc.G.ReachAfter(ab.V, nil, nil)[ab.V], rule, fmt.Sprintf("service.(*TCPRelay).handleConn:abort#%d-once", i), ab.Pos(), "not in a loop", "Abort can run repeatedly")
		for j, other := range aborts {
			if i != j && fc.G.ReachAfter(ab.V, nil, nil)[other.V] {
				r.Fail(rule, fmt.Sprintf("service.(*TCPRelay).handleConn:abort#%d-then-abort#%d", i, j), ab.Pos(), "two Aborts on one path")
			}
		}
		// argument provenance
		arg := fc.Resolve(ab.Call.Args[0])
		okArg := false
		why := exprStr(arg)
		if c, isCall := arg.(*ast.CallExpr); isCall && len(c.Args) == 1 {
			fn := Callee(info, c)
			eo := objOf(info, c.Args[0])
			if fn != nil && fn.Name() == "DialResultFromError" && eo != nil {
				cv := fc.G.VertexOf(c)
				rd := fc.ReachingDefs(cv, eo)
				if len(rd) == 1 {
					switch {
					case rd[0] == route.V && fn.Pkg().Path() == mp("router"):
						okArg = true
						why = "router.DialResultFromError(error of GetTCPClient)"
					case rd[0] == dial.V && fn.Pkg().Path() == mp("conn"):
						okArg = true
						why = "conn.DialResultFromError(error of DialStream)"
					default:
						why = "DialResultFromError of an error defined at " + p.posStr(fc.G.V[rd[0]].Node.Pos())
					}
				}
			}
		}
		r.Check(okArg, rule, fmt.Sprintf("service.(*TCPRelay).handleConn:abort#%d-reports-its-own-failure", i), ab.Pos(), why, "the dial result handed to Abort is "+why+", not derived from the error of the failure being reported: the client gets the wrong reply code")
	}
	// router failure edge always aborts
	abortV := map[int]bool{}
	for _, ab := range aborts {
		abortV[ab.V] = true
	}
	for _, e := range route.ResultEdges(-1, WantNonNil) {
		reach := fc.G.Reach([]int{e.To}, func(v *Vertex) bool { return abortV[v.ID] }, nil)
		r.Check(!reach[fc.G.Exit], rule, "service.(*TCPRelay).handleConn:router-failure-aborts", route.Pos(), "every path from a routing failure to the exit passes Abort", "a routing failure (including 'rejected') can end without Abort: the client gets no failure reply")
		r.Check(!reach[dial.V], rule, "service.(*TCPRelay).handleConn:router-failure-does-not-dial", route.Pos(), "no dial after a routing failure", "the relay dials although routing failed")
	}
	// dial failure edge: abort or already proceeded
	nonNil := fc.TestEdges(func(e ast.Expr) bool { return objOf(info, e) == connObj }, WantNonNil)
	for _, e := range dial.ResultEdges(-1, WantNonNil) {
		pass := map[Edge]bool{}
		for _, x := range nonNil {
			pass[x] = true
		}
		reach := fc.G.Reach([]int{e.To}, func(v *Vertex) bool { return abortV[v.ID] }, func(x Edge) bool { return pass[x] })
		r.Check(!reach[fc.G.Exit], rule, "service.(*TCPRelay).handleConn:dial-failure-aborts-unless-proceeded", dial.Pos(), "every path from a dial failure to the exit passes Abort or the connection-already-established edge", "a dial failure can end without the failure reply although success had not been signalled")
		r.Check(!fc.G.Reach([]int{e.To}, nil, nil)[copyc.V], rule, "service.(*TCPRelay).handleConn:dial-failure-does-not-copy", dial.Pos(), "no copy after a dial failure", "the relay copies although the dial failed")
	}
	// copy after dial success and a Proceed success
	var okEdges []Edge
	for _, pc := range proceeds {
		okEdges = append(okEdges, pc.ResultEdges(-1, WantNil)...)
	}
	// a path that crosses "connection != nil" without a successful Proceed is infeasible (the variable's only
	// definitions are its nil declaration and the Proceed results, checked above), so those edges count as crossed
	okEdges = append(okEdges, fc.TestEdges(func(e ast.Expr) bool { return objOf(info, e) == connObj }, WantNonNil)...)
	r.Check(dial.SuccessGuards(copyc.V) && fc.G.EdgeDominates(okEdges, copyc.V), rule, "service.(*TCPRelay).handleConn:copy-after-dial-and-proceed", copyc.Pos(), "BidirectionalCopy only after DialStream and a Proceed succeeded", "the copy can start without a successful dial or without the success reply having been sent")
	// the copy is between the proceeded connection and the dialled one
	r.Check(len(copyc.Call.Args) == 2 && objOf(info, copyc.Call.Args[0]) == connObj && objOf(info, copyc.Call.Args[1]) == dial.ResultVar(0), rule, "service.(*TCPRelay).handleConn:copy-endpoints", copyc.Pos(), "BidirectionalCopy(client connection, remote connection)", "the copy does not connect the proceeded client connection (left) with the dialled remote connection (right)")
	r.Floor(rule, 14)
}

func c13R2(p *Prog, r *Report) {
	const rule = "C13-R2"
	r.Rule(rule, "the request is forwarded as received: routing uses the request's user, the accepted connection's address and the request's target; DialStream gets the same target and the request's payload; the payload is replaced only inside the wait branch (empty payload, native-payload client, listener allows) by a fresh buffer that is resliced to the count of the single Read into it on every path that goes on to dial; the read deadline set for the wait is cleared before dialling")
	fc := handleConnCtx(p)
	info := fc.Info()
	var hs, route, dial *CallSite
	for _, cs := range fc.AllCalls() {
		if cs.Fn == nil {
			continue
		}
		c := cs
		switch cs.Fn.Name() {
		case "HandleStream":
			hs = &c
		case "GetTCPClient":
			route = &c
		case "DialStream":
			dial = &c
		}
	}
	if hs == nil || route == nil || dial == nil {
		r.Fail(rule, "service.(*TCPRelay).handleConn:shape", p.posStr(fc.Body.Pos()), "expected HandleStream, GetTCPClient, DialStream")
		return
	}
	req := hs.ResultVar(0)
	// req itself, or a variable that holds a plain copy of it (a helper's parameter or result)
	isReq := func(e ast.Expr) bool {
		o := objOf(info, e)
		if o == nil || req == nil {
			return false
		}
		if o == req {
			return true
		}
		at := fc.G.VertexOf(e)
		return at >= 0 && copyOfVar(fc, at, o, req, 0)
	}
	isReqField := func(e ast.Expr, f string) bool {
		sel, ok := ast.Unparen(e).(*ast.SelectorExpr)
		return ok && sel.Sel.Name == f && isReq(sel.X)
	}
	// routing request info
	if cl, ok := ast.Unparen(route.Call.Args[1]).(*ast.CompositeLit); ok {
		got := map[string]ast.Expr{}
		for _, el := range cl.Elts {
			if kv, ok := el.(*ast.KeyValueExpr); ok {
				got[kv.Key.(*ast.Ident).Name] = kv.Value
			}
		}
		r.Check(got["Username"] != nil && isReqField(got["Username"], "Username"), rule, "service.(*TCPRelay).handleConn:route-by-request-user", route.Pos(), "Username: req.Username", "routing does not use the authenticated user of this request")
		r.Check(got["TargetAddr"] != nil && isReqField(got["TargetAddr"], "Addr"), rule, "service.(*TCPRelay).handleConn:route-by-request-target", route.Pos(), "TargetAddr: req.Addr", "routing does not use the requested target")
		// source address: RemoteAddr of the accepted connection
		srcOK := false
		if got["SourceAddrPort"] != nil {
			s := normExpr(p, fc, got["SourceAddrPort"])
			srcOK = strings.Contains(s, "RemoteAddr()") && strings.Contains(s, fc.ParamObj(2).Name())
		}
		r.Check(srcOK, rule, "service.(*TCPRelay).handleConn:route-by-client-address", route.Pos(), "SourceAddrPort derives from the accepted connection's RemoteAddr", "routing does not use the accepted connection's remote address as source")
		// server index: the relay's own
		r.Check(got["ServerIndex"] != nil && strings.HasSuffix(exprStr(got["ServerIndex"]), ".serverIndex"), rule, "service.(*TCPRelay).handleConn:route-by-own-server-index", route.Pos(), "ServerIndex: s.serverIndex", "routing does not use this relay's server index")
	} else {
		r.Fail(rule, "service.(*TCPRelay).handleConn:request-info", route.Pos(), "undecided: RequestInfo is not a composite literal")
	}
	// dial args
	r.Check(isReqField(dial.Call.Args[1], "Addr"), rule, "service.(*TCPRelay).handleConn:dial-request-target", dial.Pos(), "DialStream(ctx, req.Addr, …)", "the relay dials "+exprStr(dial.Call.Args[1])+", not the requested target")
	r.Check(isReqField(dial.Call.Args[2], "Payload"), rule, "service.(*TCPRelay).handleConn:dial-request-payload", dial.Pos(), "DialStream(ctx, …, req.Payload)", "the initial payload handed to the dialer is "+exprStr(dial.Call.Args[2])+": bytes already taken from the client are dropped (or foreign bytes sent)")
	// the dialer is the routed client's
	dsel, _ := ast.Unparen(dial.Call.Fun).(*ast.SelectorExpr)
	okDialer := false
	if dsel != nil {
		if do := objOf(info, dsel.X); do != nil {
			for _, cs := range fc.AllCalls() {
				if cs.Fn != nil && cs.Fn.Name() == "NewStreamDialer" && cs.ResultVar(0) != nil && (cs.ResultVar(0) == do || copyOfVar(fc, dial.V, do, cs.ResultVar(0), 0)) {
					if s2, ok := ast.Unparen(cs.Call.Fun).(*ast.SelectorExpr); ok && objOf(info, s2.X) == route.ResultVar(0) {
						okDialer = true
					}
				}
			}
		}
	}
	r.Check(okDialer, rule, "service.(*TCPRelay).handleConn:dialer-of-routed-client", dial.Pos(), "the dialer comes from the client chosen by routing", "the dialer is not the one of the client chosen by routing")
	// assignments to req fields
	var payloadDefs []int
	var readCall *CallSite
	for _, v := range fc.G.V {
		as, ok := v.Node.(*ast.AssignStmt)
		if !ok {
			continue
		}
		for _, l := range as.Lhs {
			sel, ok := ast.Unparen(l).(*ast.SelectorExpr)
			if !ok || objOf(info, sel.X) != req {
				continue
			}
			if sel.Sel.Name == "Payload" {
				payloadDefs = append(payloadDefs, v.ID)
			} else {
				r.Fail(rule, "service.(*TCPRelay).handleConn:request-field-overwritten:"+sel.Sel.Name, p.posStr(as.Pos()), "the request's "+sel.Sel.Name+" is overwritten before use")
			}
		}
	}
	for _, cs := range fc.AllCalls() {
		sel, ok := ast.Unparen(cs.Call.Fun).(*ast.SelectorExpr)
		if !ok || sel.Sel.Name != "Read" || len(cs.Call.Args) != 1 {
			continue
		}
		// the wait read fills the request payload: directly, or through a local buffer that is
		// assigned (possibly resliced) to req.Payload afterwards
		into := isReqField(cs.Call.Args[0], "Payload")
		if !into {
			if buf := sliceRoot(info, cs.Call.Args[0]); buf != nil {
				after := fc.G.ReachAfter(cs.V, nil, nil)
				for _, d := range payloadDefs {
					as := fc.G.V[d].Node.(*ast.AssignStmt)
					for i, l := range as.Lhs {
						if ls, ok := ast.Unparen(l).(*ast.SelectorExpr); ok && ls.Sel.Name == "Payload" && i < len(as.Rhs) && after[d] {
							if sliceFlowsFrom(fc, as.Rhs[i], buf, 0) {
								into = true
							}
						}
					}
				}
			}
		}
		if into {
			c := cs
			readCall = &c
		}
	}
	// wait-branch guard
	var guardEdges []Edge
	for _, v := range fc.G.V {
		x, y, op, ok := condParts(v)
		if !ok || y == nil || op != token.EQL {
			continue
		}
		if c, isCall := ast.Unparen(x).(*ast.CallExpr); isCall && len(c.Args) == 1 && isReqField(c.Args[0], "Payload") {
			if k, isC := constInt(info, y); isC && k == 0 {
				for _, e := range v.Succs {
					if e.Label == LTrue {
						guardEdges = append(guardEdges, e)
					}
				}
			}
		}
	}
	var nativeEdges, allowEdges []Edge
	for _, v := range fc.G.V {
		if v.Kind != VCond {
			continue
		}
		s := exprStr(v.Node)
		for _, e := range v.Succs {
			if e.Label == LTrue && strings.HasSuffix(s, ".NativeInitialPayload") {
				nativeEdges = append(nativeEdges, e)
			}
			if e.Label == LTrue && strings.HasSuffix(s, ".waitForInitialPayload") {
				allowEdges = append(allowEdges, e)
			}
		}
	}
	if readCall == nil {
		r.Fail(rule, "service.(*TCPRelay).handleConn:wait-read", p.posStr(fc.Body.Pos()), "no read of the initial payload found")
	} else {
		g := fc.G.EdgeDominates(guardEdges, readCall.V) && fc.G.EdgeDominates(nativeEdges, readCall.V) && fc.G.EdgeDominates(allowEdges, readCall.V)
		r.Check(g, rule, "service.(*TCPRelay).handleConn:wait-only-when-needed", readCall.Pos(), "the wait read happens only for an empty payload, a native-payload client and an allowing listener", "the relay reads from the client before dialling outside the documented conditions (e.g. although the request already carried a payload, which is then overwritten and lost)")
		r.Check(!fc.G.ReachAfter(readCall.V, nil, nil)[readCall.V], rule, "service.(*TCPRelay).handleConn:single-wait-read", readCall.Pos(), "one Read", "the wait read can repeat: earlier bytes are overwritten")
		cnt := readCall.ResultVar(0)
		// the buffer the read fills: req.Payload itself, or a local that is handed to it later
		bufIsReq := isReqField(readCall.Call.Args[0], "Payload")
		var bufObj types.Object
		if !bufIsReq {
			bufObj = sliceRoot(info, readCall.Call.Args[0])
		}
		isBuf := func(e ast.Expr) bool {
			if bufIsReq {
				return isReqField(e, "Payload")
			}
			return bufObj != nil && objOf(info, e) == bufObj
		}
		// definitions of the buffer: make before the read; a reslice [:count] after it (assigned to
		// the buffer, to req.Payload or to a variable that req.Payload is then set from)
		var mk, reslice = -1, -1
		for _, v := range fc.G.V {
			as, ok := v.Node.(*ast.AssignStmt)
			if !ok || v.Kind != VStmt || len(as.Lhs) != len(as.Rhs) {
				continue
			}
			for i, l := range as.Lhs {
				rhs := ast.Unparen(as.Rhs[i])
				if isBuf(l) {
					if c, ok := rhs.(*ast.CallExpr); ok {
						if id, ok := ast.Unparen(c.Fun).(*ast.Ident); ok && id.Name == "make" {
							mk = v.ID
						}
					}
				}
				if sl, ok := rhs.(*ast.SliceExpr); ok && sl.Low == nil && isBuf(sl.X) && cnt != nil && sl.High != nil && objOf(info, sl.High) == cnt {
					reslice = v.ID
				}
			}
		}
		for _, d := range payloadDefs {
			as := fc.G.V[d].Node.(*ast.AssignStmt)
			if d == mk || d == reslice {
				continue
			}
			if !fc.G.ReachAfter(d, nil, nil)[dial.V] {
				continue // a value assigned on a path that ends without dialling is never forwarded
			}
			okFlow := false
			for i, l := range as.Lhs {
				if isReqField(l, "Payload") && i < len(as.Rhs) {
					if bufIsReq {
						okFlow = false
					} else if sliceFlowsFrom(fc, as.Rhs[i], bufObj, 0) && fc.G.ReachAfter(readCall.V, nil, nil)[d] {
						okFlow = true
					}
				}
			}
			if !okFlow {
				r.Fail(rule, "service.(*TCPRelay).handleConn:payload-def:"+exprStr(as), p.posStr(as.Pos()), "the request payload is replaced by something other than the wait buffer / its [:count] reslice")
			}
		}
		okMk := mk >= 0 && fc.G.Dominates([]int{mk}, readCall.V) && fc.G.EdgeDominates(guardEdges, mk)
		r.Check(okMk, rule, "service.(*TCPRelay).handleConn:wait-buffer", readCall.Pos(), "the read goes into a fresh buffer allocated inside the wait branch", "the wait read does not go into a fresh buffer allocated in the wait branch")
		// from the read, the dial is reachable only through the reslice
		if reslice >= 0 {
			reach := fc.G.ReachAfter(readCall.V, func(v *Vertex) bool { return v.ID == reslice }, nil)
			r.Check(fc.SoleDef(reslice, cnt, readCall.V), rule, "service.(*TCPRelay).handleConn:count-is-the-reads", p.posStr(fc.G.V[reslice].Node.Pos()), "the count used for the reslice is the one returned by the read", "the count is modified between the read and the reslice: bytes taken from the client are dropped or padding is forwarded")
			r.Check(!reach[dial.V], rule, "service.(*TCPRelay).handleConn:payload-resliced-to-count", p.posStr(fc.G.V[reslice].Node.Pos()), "every path from the read to DialStream passes req.Payload = req.Payload[:count]", "a path from the wait read to DialStream skips the reslice: the whole zero-filled wait buffer (or none of the bytes read) is forwarded")
		} else {
			r.Fail(rule, "service.(*TCPRelay).handleConn:payload-resliced-to-count", readCall.Pos(), "the payload is never resliced to the count actually read")
		}
		// bytes read together with io.EOF or a timeout are still forwarded: the reslice must not be success-guarded
		if reslice >= 0 {
			r.Check(!readCall.SuccessGuards(reslice), rule, "service.(*TCPRelay).handleConn:eof-with-data-forwarded", p.posStr(fc.G.V[reslice].Node.Pos()), "bytes returned together with EOF / timeout are kept", "bytes returned by the read together with io.EOF or a timeout are dropped")
		}
	}
	// deadline cleared
	var setD, clearD []int
	for _, cs := range fc.AllCalls() {
		if cs.Fn != nil && cs.Fn.Name() == "SetReadDeadline" && len(cs.Call.Args) == 1 {
			if cl, ok := ast.Unparen(cs.Call.Args[0]).(*ast.CompositeLit); ok && len(cl.Elts) == 0 {
				clearD = append(clearD, cs.V)
			} else {
				setD = append(setD, cs.V)
			}
		}
	}
	isClear := map[int]bool{}
	for _, c := range clearD {
		isClear[c] = true
	}
	for i, sd := range setD {
		reach := fc.G.ReachAfter(sd, func(v *Vertex) bool { return isClear[v.ID] }, nil)
		r.Check(!reach[dial.V], rule, fmt.Sprintf("service.(*TCPRelay).handleConn:wait-deadline#%d-cleared", i), p.posStr(fc.G.V[sd].Node.Pos()), "every path from the wait deadline to DialStream clears it", "the 'initial payload wait' read deadline is still armed when the relay starts copying: the connection is cut after the wait timeout")
	}
	r.Floor(rule, 13)
}

func c13R3(p *Prog, r *Report) {
	const rule = "C13-R3"
	r.Rule(rule, "accounting: the value passed for the collector's downlinkBytes parameter derives from BidirectionalCopy's right-to-left result and uplinkBytes from the left-to-right result plus the initial payload length added exactly once; the record is made whether or not the copy ended with an error")
	fc := handleConnCtx(p)
	info := fc.Info()
	var copyc, coll *CallSite
	for _, cs := range fc.AllCalls() {
		if cs.Fn == nil {
			continue
		}
		c := cs
		if funcIs(cs.Fn, mp("netio"), "", "BidirectionalCopy") {
			copyc = &c
		}
		if cs.Fn.Name() == "CollectTCPSession" {
			coll = &c
		}
	}
	if copyc == nil || coll == nil {
		r.Fail(rule, "service.(*TCPRelay).handleConn:shape", p.posStr(fc.Body.Pos()), "expected BidirectionalCopy and CollectTCPSession")
		return
	}
	// result roles of BidirectionalCopy from its own signature names
	bsig := copyc.Fn.Type().(*types.Signature)
	l2r, r2l := copyc.ResultVar(0), copyc.ResultVar(1)
	r.Check(bsig.Results().At(0).Name() == "nl2r" && bsig.Results().At(1).Name() == "nr2l", rule, "netio.BidirectionalCopy:result-roles", copyc.Pos(), "results are (left-to-right, right-to-left)", "BidirectionalCopy's result roles changed")
	// ... and inside BidirectionalCopy the first count returned is that of the copy INTO the second
	// parameter FROM the first (left to right), the second that of the opposite copy — through the
	// variables the two io.Copy results are assigned to, in the function or its goroutine literal
	if bc := p.CtxOfObj(copyc.Fn); bc != nil {
		binfo := bc.Info()
		left, right := bc.ParamObj(0), bc.ParamObj(1)
		countOf := map[string]types.Object{} // "l2r"/"r2l" -> variable receiving the copy's count
		for _, c := range allCtxs(p, bc) {
			for _, cs := range c.AllCalls() {
				if cs.Fn == nil || cs.Fn.Name() != "Copy" || cs.Fn.Pkg() == nil || cs.Fn.Pkg().Path() != "io" || len(cs.Call.Args) != 2 {
					continue
				}
				dst, src := objOf(binfo, cs.Call.Args[0]), objOf(binfo, cs.Call.Args[1])
				switch {
				case dst == right && src == left:
					countOf["l2r"] = cs.ResultVar(0)
				case dst == left && src == right:
					countOf["r2l"] = cs.ResultVar(0)
				}
			}
		}
		okRoles := countOf["l2r"] != nil && countOf["r2l"] != nil
		for _, ret := range bc.Returns() {
			rs, isRet := bc.G.V[ret].Node.(*ast.ReturnStmt)
			if !isRet {
				continue
			}
			var r0, r1 types.Object
			if len(rs.Results) >= 2 {
				r0, r1 = objOf(binfo, rs.Results[0]), objOf(binfo, rs.Results[1])
			} else {
				r0, r1 = bc.ResultObj(0), bc.ResultObj(1)
			}
			if r0 != countOf["l2r"] || r1 != countOf["r2l"] {
				okRoles = false
			}
		}
		r.Check(okRoles, rule, "netio.BidirectionalCopy:counts-returned-in-order", p.posStr(bc.Body.Pos()), "result 0 is the count of io.Copy(right, left), result 1 that of io.Copy(left, right)", "BidirectionalCopy does not return (count of the copy into right from left, count of the copy into left from right) in that order: every caller's uplink and downlink figures are swapped")
	}
	csig := coll.Fn.Type().(*types.Signature)
	for i := 1; i < csig.Params().Len(); i++ {
		pn := csig.Params().At(i).Name()
		arg := coll.Call.Args[i]
		var base types.Object
		ast.Inspect(arg, func(n ast.Node) bool {
			if id, ok := n.(*ast.Ident); ok {
				if o := info.Uses[id]; o == l2r || o == r2l {
					base = o
				}
			}
			return true
		})
		want := r2l
		if pn == "uplinkBytes" {
			want = l2r
		}
		r.Check(base != nil && base == want, rule, "service.(*TCPRelay).handleConn:collector-arg:"+pn, coll.Pos(), pn+" receives the matching copy direction", pn+" receives "+exprStr(arg)+": uplink and downlink are swapped in the statistics (both are uint64, so it compiles)")
	}
	// payload added once to l2r between copy and collect
	adds := 0
	for _, d := range fc.Defs(l2r) {
		if d == copyc.V {
			continue
		}
		as, ok := fc.G.V[d].Node.(*ast.AssignStmt)
		if ok && as.Tok == token.ADD_ASSIGN && lenOfRequestPayload(fc, as.Rhs[0]) && fc.G.Dominates([]int{copyc.V}, d) && fc.G.Dominates([]int{d}, coll.V) && !fc.G.ReachAfter(d, nil, nil)[d] {
			adds++
			continue
		}
		r.Fail(rule, "service.(*TCPRelay).handleConn:uplink-count-def:"+exprStr(fc.G.V[d].Node), p.posStr(fc.G.V[d].Node.Pos()), "the uplink count is modified other than by adding the initial payload length once")
	}
	r.Check(adds == 1, rule, "service.(*TCPRelay).handleConn:payload-counted-once", coll.Pos(), "initial payload length added exactly once", fmt.Sprintf("the initial payload length is added %d times to the uplink count", adds))
	for _, d := range fc.Defs(r2l) {
		if d != copyc.V {
			r.Fail(rule, "service.(*TCPRelay).handleConn:downlink-count-def", p.posStr(fc.G.V[d].Node.Pos()), "the downlink count is modified after the copy")
		}
	}
	// collect is not conditional on the copy's error
	r.Check(!copyc.SuccessGuards(coll.V) && fc.G.Dominates([]int{copyc.V}, coll.V), rule, "service.(*TCPRelay).handleConn:collect-regardless-of-error", coll.Pos(), "recorded after the copy whatever its error", "sessions that end with an error are not recorded")
	// username
	sel, ok := ast.Unparen(coll.Call.Args[0]).(*ast.SelectorExpr)
	r.Check(ok && sel.Sel.Name == "Username", rule, "service.(*TCPRelay).handleConn:collector-user", coll.Pos(), "charged to req.Username", "the session is charged to "+exprStr(coll.Call.Args[0]))
	r.Floor(rule, 6)
}

func c13R4(p *Prog, r *Report) {
	const rule = "C13-R4"
	r.Rule(rule, "half-close mirroring in netio.BidirectionalCopy: there are two io.Copy calls in opposite directions over the two parameters; each is followed on every path, unconditionally, by CloseWrite on its own destination; the function waits for the spawned direction before returning; each result count comes from the copy of its direction")
	fc := p.Func("netio", "", "BidirectionalCopy")
	left, right := fc.ParamObj(0), fc.ParamObj(1)
	type cp struct {
		fc       *FuncCtx
		cs       CallSite
		dst, src types.Object
	}
	var copies []cp
	for _, c := range allCtxs(p, fc) {
		for _, cs := range c.CallsTo(isFn("io", "", "Copy")) {
			copies = append(copies, cp{c, cs, objOf(c.Info(), cs.Call.Args[0]), objOf(c.Info(), cs.Call.Args[1])})
		}
	}
	if len(copies) != 2 {
		r.Fail(rule, "netio.BidirectionalCopy:two-copies", p.posStr(fc.Body.Pos()), fmt.Sprintf("expected two io.Copy calls, found %d", len(copies)))
		return
	}
	dirs := map[string]bool{}
	for _, c := range copies {
		switch {
		case c.dst == right && c.src == left:
			dirs["l2r"] = true
		case c.dst == left && c.src == right:
			dirs["r2l"] = true
		}
	}
	r.Check(dirs["l2r"] && dirs["r2l"], rule, "netio.BidirectionalCopy:opposite-directions", p.posStr(fc.Body.Pos()), "one copy left→right, one right→left", "the two copies do not cover both directions between the two parameters")
	for i, c := range copies {
		// CloseWrite on dst after the copy on every path to the end of that function
		var closes []int
		for _, cs := range c.fc.AllCalls() {
			if sel, ok := ast.Unparen(cs.Call.Fun).(*ast.SelectorExpr); ok && sel.Sel.Name == "CloseWrite" && objOf(c.fc.Info(), sel.X) == c.dst {
				closes = append(closes, cs.V)
			}
		}
		isClose := map[int]bool{}
		for _, v := range closes {
			isClose[v] = true
		}
		reach := c.fc.G.ReachAfter(c.cs.V, func(v *Vertex) bool { return isClose[v.ID] }, nil)
		dirName := "left→right"
		if c.dst == left {
			dirName = "right→left"
		}
		r.Check(len(closes) > 0 && !reach[c.fc.G.Exit], rule, fmt.Sprintf("netio.BidirectionalCopy:copy#%d-then-CloseWrite", i), c.cs.Pos(), dirName+": CloseWrite on the destination follows the copy on every path",
			dirName+": after the copy ends, a path reaches the end without CloseWrite on the destination (e.g. only when the copy returned no error): the peer never sees end-of-stream and the opposite direction hangs until it gives up")
		// the half-close is not held back: nothing that waits for the other direction (WaitGroup
		// wait, channel receive, the other copy) lies between the end of this copy and the
		// CloseWrite of its destination
		delayed := ""
		for _, v := range c.fc.G.V {
			if !reach[v.ID] || v.Node == nil {
				continue
			}
			blocking := false
			inspectNoLit(v.Node, func(n ast.Node) bool {
				switch x := n.(type) {
				case *ast.CallExpr:
					if fn := Callee(c.fc.Info(), x); fn != nil {
						if (fn.Name() == "Wait" && namedTypeName(recvTypeOf(fn)) == "WaitGroup") || (fn.Pkg() != nil && fn.Pkg().Path() == "io" && fn.Name() == "Copy") {
							blocking = true
						}
					}
				case *ast.UnaryExpr:
					if x.Op == token.ARROW {
						blocking = true
					}
				}
				return true
			})
			if blocking && v.ID != c.cs.V {
				delayed = exprStr(v.Node)
			}
		}
		r.Check(delayed == "", rule, fmt.Sprintf("netio.BidirectionalCopy:copy#%d-CloseWrite-not-delayed", i), c.cs.Pos(), dirName+": the half-close follows the copy immediately",
			dirName+": "+delayed+" runs between the end of the copy and CloseWrite on its destination: the end-of-stream of one side is passed on only after the other direction has finished too, so a peer that waits for EOF before closing never finishes")
		// wrong side closed
		for _, cs := range c.fc.AllCalls() {
			if sel, ok := ast.Unparen(cs.Call.Fun).(*ast.SelectorExpr); ok && (sel.Sel.Name == "CloseWrite" || sel.Sel.Name == "Close" || sel.Sel.Name == "CloseRead") {
				o := objOf(c.fc.Info(), sel.X)
				if c.fc.G.ReachAfter(c.cs.V, nil, nil)[cs.V] && o != c.dst && (o == left || o == right) && c.fc != fc {
					r.Fail(rule, fmt.Sprintf("netio.BidirectionalCopy:copy#%d-closes-other-side", i), cs.Pos(), "the goroutine of one direction shuts down the other direction's write side")
				}
			}
		}
		// the count result comes from this copy
		cnt := c.cs.ResultVar(0)
		wantName := "nl2r"
		if c.dst == left {
			wantName = "nr2l"
		}
		r.Check(cnt != nil && cnt.Name() == wantName, rule, fmt.Sprintf("netio.BidirectionalCopy:copy#%d-count-role", i), c.cs.Pos(), dirName+" count stored in "+wantName, dirName+" count is stored in the other direction's result")
	}
	// wait before return
	var waits []int
	for _, cs := range fc.AllCalls() {
		if cs.Fn != nil && cs.Fn.Name() == "Wait" && namedTypeName(recvTypeOf(cs.Fn)) == "WaitGroup" {
			waits = append(waits, cs.V)
		}
	}
	spawned := false
	for _, cs := range fc.AllCalls() {
		if cs.Fn != nil && cs.Fn.Name() == "Go" && namedTypeName(recvTypeOf(cs.Fn)) == "WaitGroup" {
			spawned = true
		}
	}
	r.Check(spawned && len(waits) == 1 && fc.G.Dominates(waits, fc.G.Exit), rule, "netio.BidirectionalCopy:waits-for-both", p.posStr(fc.Body.Pos()), "the spawned direction runs under the WaitGroup that is awaited before returning", "the function can return before the spawned direction finished: counts are read early and the caller closes the connections under it")
	r.Floor(rule, 6)
}

func c13R5(p *Prog, r *Report) {
	const rule = "C13-R5"
	r.Rule(rule, "cleanup: every exit of handleConn closes the accepted connection (deferred: the proceeded connection if any, else the raw one) and, once dialled, the remote connection (deferred on the dial's success edge)")
	fc := handleConnCtx(p)
	info := fc.Info()
	okClient := false
	for _, lit := range fc.Lits() {
		if !fc.IsDeferredLit(lit) {
			continue
		}
		lc := p.LitCtx(fc, lit)
		closes := 0
		for _, cs := range lc.AllCalls() {
			if sel, ok := ast.Unparen(cs.Call.Fun).(*ast.SelectorExpr); ok && sel.Sel.Name == "Close" {
				closes++
			}
		}
		// both branches close something: every path to exit passes a Close
		var cv []int
		for _, cs := range lc.AllCalls() {
			if sel, ok := ast.Unparen(cs.Call.Fun).(*ast.SelectorExpr); ok && sel.Sel.Name == "Close" {
				cv = append(cv, cs.V)
			}
		}
		if closes >= 2 && lc.G.Dominates(cv, lc.G.Exit) {
			okClient = true
		}
		// the defer is registered before anything can return
		for _, d := range fc.G.Defers {
			if ast.Unparen(fc.G.V[d].Node.(*ast.DeferStmt).Call.Fun) == lit {
				if !fc.G.Dominates([]int{d}, fc.G.Exit) {
					okClient = false
				}
			}
		}
	}
	r.Check(okClient, rule, "service.(*TCPRelay).handleConn:client-closed-on-every-exit", p.posStr(fc.Body.Pos()), "a deferred function registered first closes the client connection on every path", "an exit of handleConn leaves the accepted connection open (descriptor leak, client hangs)")
	var dial *CallSite
	for _, cs := range fc.AllCalls() {
		if cs.Fn != nil && cs.Fn.Name() == "DialStream" {
			c := cs
			dial = &c
		}
	}
	okRemote := false
	if dial != nil {
		for _, d := range fc.G.Defers {
			ds := fc.G.V[d].Node.(*ast.DeferStmt)
			if sel, ok := ast.Unparen(ds.Call.Fun).(*ast.SelectorExpr); ok && sel.Sel.Name == "Close" && objOf(info, sel.X) == dial.ResultVar(0) {
				// on every success path of the dial
				ok2 := dial.SuccessGuards(d)
				for _, e := range dial.ResultEdges(-1, WantNil) {
					if fc.G.Reach([]int{e.To}, func(v *Vertex) bool { return v.ID == d }, nil)[fc.G.Exit] {
						ok2 = false
					}
				}
				okRemote = ok2
			}
		}
	}
	r.Check(okRemote, rule, "service.(*TCPRelay).handleConn:remote-closed-after-dial", p.posStr(fc.Body.Pos()), "defer remoteConn.Close() follows every successful dial", "a successfully dialled remote connection is not closed on some exit")
	r.Floor(rule, 2)
}

// sliceFlowsFrom: expression e is (a reslice of) variable buf, or of a variable one of whose
// definitions is such an expression (values handed back by an expanded helper).
func sliceFlowsFrom(fc *FuncCtx, e ast.Expr, buf types.Object, depth int) bool {
	if depth > 4 {
		return false
	}
	info := fc.Info()
	root := sliceRoot(info, e)
	if root == nil {
		return false
	}
	if root == buf {
		return true
	}
	for _, d := range fc.Defs(root) {
		as, ok := fc.G.V[d].Node.(*ast.AssignStmt)
		if !ok || len(as.Lhs) != len(as.Rhs) {
			continue
		}
		for i, l := range as.Lhs {
			if objOf(info, l) == root && sliceFlowsFrom(fc, as.Rhs[i], buf, depth+1) {
				return true
			}
		}
	}
	return false
}

// lenOfRequestPayload: e contains len(<a netio.ConnRequest value>.Payload) — the initial payload
// of the request, whatever the request variable is called.
func lenOfRequestPayload(fc *FuncCtx, e ast.Expr) bool {
	info := fc.Info()
	found := false
	ast.Inspect(e, func(n ast.Node) bool {
		c, ok := n.(*ast.CallExpr)
		if !ok || len(c.Args) != 1 {
			return true
		}
		if id, ok := ast.Unparen(c.Fun).(*ast.Ident); !ok || id.Name != "len" {
			return true
		}
		if sel, ok := ast.Unparen(c.Args[0]).(*ast.SelectorExpr); ok && sel.Sel.Name == "Payload" && namedTypeName(info.TypeOf(sel.X)) == "ConnRequest" {
			found = true
		}
		return true
	})
	return found
}
